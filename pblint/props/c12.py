"""C12 Addresses map one-to-one to standard scripts, on the selected chain only."""
import ast
import re

from ..model import UNKNOWN, ClassRef, FuncRef, ClassInfo, norm, walk_no_nested
from ..layout import LayoutEngine
from ..resolve import Resolver
from ..escape import Escape, rule_entry
from ..rules import canon_guard
from ..interp import Interp
from .. import common, spec, flow

W = 'bitcoin.wallet.'


def run(ctx):
    repo = ctx.repo
    eng = LayoutEngine(repo)
    rule_prefixes(ctx, repo)
    rule_select(ctx, repo)
    r = ctx.rule('C12.P1', 'chain parameters are read at call time everywhere in the address code', engine='OWN', floor=1)
    n = common.rule_call_time_params(r, repo)
    ctx.extra['call_time_reads'] = n
    rule_templates(ctx, repo)
    rule_selection(ctx, repo)
    rule_escape(ctx, repo, eng)
    r_ = ctx.rule('C12.I2', 'script templates are matched by index only behind the length test of the template', engine='GUARD', floor=8)
    fs_ = [f for q, f in sorted(repo.functions.items()) if q.startswith('bitcoin.wallet.') and f.name == 'from_scriptPubKey']
    common.const_index_instances(r_, repo, fs_, what='a shorter script raises IndexError instead of being refused as "not a recognised script"')
    # the bech32 acceptance rules are what refuses other chains' and malformed segwit strings
    from . import c11
    for fn, rid in ((c11.rule_segwit_rules, 'C12.R3'), (c11.rule_convertbits, 'C12.R2'), (c11.rule_decode_rules, 'C12.R1')):
        fn(ctx, repo)
        ctx.rules[-1].id = rid
        for i in ctx.rules[-1].instances:
            i.rule = rid
    ctx.not_decided += ['the text round trip through base58 / bech32 arithmetic (C10 / C11 decide their structural clauses)']
    ctx.assume('CScript coercion table as decided by C08 (opcode -> 1 byte, 0 -> OP_0, 20/32-byte payload -> direct push)')


def rule_prefixes(ctx, repo):
    r = ctx.rule('C12.C1', 'per-chain base58 version bytes and bech32 prefixes', engine='CONST', floor=16)
    m = repo.get_module('bitcoin')
    for name, ch in sorted(spec.CHAINS.items()):
        c = m.classes.get(ch['class'])
        if c is None:
            r.undecided(name, m.relpath + ':0', 'class %s not found' % ch['class'])
            continue
        pf = repo.class_attr_value(c, 'BASE58_PREFIXES')
        for k in ('PUBKEY_ADDR', 'SCRIPT_ADDR', 'SECRET_KEY'):
            got = pf.get(k) if isinstance(pf, dict) else None
            r.check(got == ch[k], '%s:%s' % (name, k), c.site, '%s = %d' % (k, ch[k]), '%s %s is %r, reference %d' % (name, k, got, ch[k]))
        hrp = repo.class_attr_value(c, 'BECH32_HRP')
        r.check(hrp == ch['hrp'], '%s:hrp' % name, c.site, ch['hrp'], '%s bech32 prefix is %r, reference %r' % (name, hrp, ch['hrp']))
        nm = repo.class_attr_value(c, 'NAME')
        r.check(nm == name, '%s:name' % name, c.site, name, 'NAME of %s is %r' % (ch['class'], nm))


def rule_select(ctx, repo):
    r = ctx.rule('C12.S1', 'SelectParams: the four names, both globals set to the same object of the matching class, unknown names refused before any change', engine='TABLE', floor=6)
    fi = repo.get_function('bitcoin.SelectParams')
    nm = fi.params[0]
    body = [s for s in fi.node.body if not (isinstance(s, (ast.Global,)) or (isinstance(s, ast.Expr) and isinstance(s.value, ast.Constant)))]
    first = norm(body[0]) if body else None
    r.check(first == 'bitcoin.core._SelectCoreParams(%s)' % nm, 'core-first', fi.site, 'core parameters validated/selected first (raises on an unknown name)', 'SelectParams starts with `%s`' % first)
    from ..table import if_chain, Tracer
    # decided per chain name: the name is traced through the function (all guards fold), and the path must end in one
    # assignment that binds both globals to one fresh object of the chain's class - whatever the spelling of the chain
    seen = {}
    lits = sorted({n.value for n in ast.walk(fi.node) if isinstance(n, ast.Constant) and isinstance(n.value, str) and n.value.isidentifier()} | set(spec.CHAINS))
    for name in lits + ['no-such-chain']:
        tr = Tracer(repo, fi.module, noreturn=())
        paths = tr.trace(body[1:] if first == 'bitcoin.core._SelectCoreParams(%s)' % nm else body, {nm: name})
        ch = spec.CHAINS.get(name)
        if len(paths) != 1:
            r.undecided('arm:%s' % name, fi.site, 'selection of %r does not fold (%d paths)' % (name, len(paths)))
            continue
        p = paths[0]
        binds = [s_ for s_ in p.stmts() if isinstance(s_, ast.Assign) and any(norm(t) in ('params', 'bitcoin.core.coreparams', 'bitcoin.params') for t in s_.targets)]
        if ch is None:
            if name == 'no-such-chain' or p.end == 'raise':
                ok = p.end == 'raise' and isinstance(p.endnode, ast.Raise) and isinstance(p.endnode.exc, ast.Call) and norm(p.endnode.exc.func) == 'ValueError' and not binds
                if name == 'no-such-chain':
                    r.check(ok, 'unknown-name', common.site_of(fi, p.endnode) if p.endnode is not None else fi.site, 'unknown chain raises ValueError before anything is rebound',
                            'an unknown chain name does not raise ValueError (or rebinds the parameters first)')
            else:
                r.violated('arm:%s' % name, fi.site, 'unknown chain name %r selectable' % name)
            continue
        seen[name] = p
        t = [norm(s_) for s_ in binds]
        ok = False
        if len(binds) == 1 and p.end != 'raise':
            b_ = binds[0]
            tg = sorted(norm(t_) for t_ in b_.targets)
            v_ = b_.value
            cv = repo.fold(v_.func, fi.module, env=p.env) if isinstance(v_, ast.Call) and not v_.args and not v_.keywords else None
            ok = tg == ['bitcoin.core.coreparams', 'params'] and isinstance(cv, ClassRef) and cv.info.name == ch['class']
        want = 'params = bitcoin.core.coreparams = %s()' % ch['class']
        r.check(ok, 'arm:%s' % name, common.site_of(fi, binds[0]) if binds else fi.site, want,
                'selecting %r executes %s; both bitcoin.params and bitcoin.core.coreparams must be set to one %s() object' % (name, t, ch['class']))
    r.check(set(seen) == set(spec.CHAINS), 'names', fi.site, sorted(seen), 'selectable names are %s, reference %s' % (sorted(seen), sorted(spec.CHAINS)))
    g = [s for s in fi.node.body if isinstance(s, ast.Global)]
    r.check(any('params' in x.names for x in g), 'global', fi.site, '`global params`', 'SelectParams does not declare `global params`: the assignment would be local')
    core = repo.get_function('bitcoin.core._SelectCoreParams')
    cchain = None
    for s in core.node.body:
        if isinstance(s, ast.If):
            cchain = if_chain(s)
    names = set()
    for test, blk in cchain or []:
        if test is not None:
            m = re.match(r"^%s == '(\w+)'$" % core.params[0], norm(test))
            if m:
                names.add(m.group(1))
                ch = spec.CHAINS.get(m.group(1))
                want = 'coreparams = %s()' % (ch['core'] if ch else '?')
                r.check([norm(s) for s in blk] == [want], 'core-arm:%s' % m.group(1), common.site_of(core, test), want, 'core selection of %r executes %s' % (m.group(1), [norm(s) for s in blk]))
    r.check(names == set(spec.CHAINS), 'core-names', core.site, sorted(names), '_SelectCoreParams handles %s' % sorted(names))
    # each chain class derives from the core class of the same chain
    for name, ch in sorted(spec.CHAINS.items()):
        c = repo.classes.get('bitcoin.' + ch['class'])
        k = repo.classes.get('bitcoin.core.' + ch['core'])
        r.check(c is not None and k is not None and repo.is_subclass(c, k), 'derives:%s' % name, c.site if c else '', '%s(%s)' % (ch['class'], ch['core']), '%s does not derive from %s' % (ch['class'], ch['core']))


# ------------------------------------------------------------------------------------------------ templates
def builder_template(repo, fi, payload_len):
    """byte template of `script.CScript([...])` returned by to_scriptPubKey: list of ints / 'P' (payload byte)"""
    rets = [n.value for n in walk_no_nested(fi.node) if isinstance(n, ast.Return)]
    if len(rets) != 1 or not isinstance(rets[0], ast.Call) or not rets[0].args or not isinstance(rets[0].args[0], ast.List):
        return None
    cv = repo.fold(rets[0].func, fi.module)
    if not (isinstance(cv, ClassRef) and cv.info.name == 'CScript'):
        return None
    out = []
    for e in rets[0].args[0].elts:
        if isinstance(e, ast.Name) and e.id == 'self':
            if payload_len >= 0x4c:
                return None
            out.append(payload_len)
            out.extend(['P'] * payload_len)
            continue
        v = repo.fold(e, fi.module)
        from ..model import OpInt
        if isinstance(v, OpInt):
            out.append(int(v))
        elif isinstance(v, int) and v == 0:
            out.append(0)
        elif isinstance(v, int) and 1 <= v <= 16:
            out.append(0x50 + v)
        else:
            return None
    return out


def matcher_facts(repo, test, fi, var):
    """conjuncts of a matcher -> (length, {index: byte}, {slice: bytes}) ; predicates are expanded through CScript"""
    length = None
    at = {}
    sl = {}
    conj = test.values if isinstance(test, ast.BoolOp) and isinstance(test.op, ast.And) else [test]
    for c in conj:
        t = norm(c)
        m = re.match(r'^%s\.(\w+)\(\)$' % re.escape(var), t)
        if m:
            cs = repo.get_class('bitcoin.core.script.CScript')
            p = repo.lookup_method(cs, m.group(1))
            rets = [n.value for n in walk_no_nested(p.node) if isinstance(n, ast.Return)] if p else []
            if len(rets) != 1:
                return None
            l2, a2, s2 = matcher_facts(repo, rets[0], p, 'self') or (None, None, None)
            if a2 is None:
                return None
            length = l2 if l2 is not None else length
            at.update(a2)
            sl.update(s2)
            continue
        if isinstance(c, ast.Compare) and len(c.ops) == 1 and isinstance(c.ops[0], ast.Eq):
            l, r_ = c.left, c.comparators[0]
            v = repo.fold(r_, fi.module, cls=fi.cls)
            if norm(l) == 'len(%s)' % var and isinstance(v, int):
                length = v
                continue
            if isinstance(l, ast.Subscript) and norm(l.value) == var:
                if isinstance(l.slice, ast.Slice):
                    lo = repo.fold(l.slice.lower, fi.module) if l.slice.lower else 0
                    hi = repo.fold(l.slice.upper, fi.module)
                    if isinstance(v, bytes):
                        sl[(lo, hi)] = v
                        continue
                else:
                    k = repo.fold(l.slice, fi.module)
                    if isinstance(k, int) and isinstance(v, int):
                        at[k] = int(v)
                        continue
        return None
    return length, at, sl


def rule_templates(ctx, repo):
    r = ctx.rule('C12.T1', 'template agreement: each to_scriptPubKey builder satisfies its from_scriptPubKey matcher and the payload slice sits on the placeholder', engine='LAYOUT', floor=8)
    cases = [('P2PKHBitcoinAddress', 20), ('P2SHBitcoinAddress', 20), ('P2WPKHBitcoinAddress', 20), ('P2WSHBitcoinAddress', 32)]
    for cname, plen in cases:
        ci = repo.get_class(W + cname)
        b = repo.lookup_method(ci, 'to_scriptPubKey')
        f = repo.lookup_method(ci, 'from_scriptPubKey')
        tpl = builder_template(repo, b, plen)
        if tpl is None:
            r.undecided('%s:builder' % cname, b.site, 'builder is not `CScript([<opcodes>, self, ...])`')
            continue
        var = f.params[1]
        # matcher arms returning cls.from_bytes(var[a:b], ...)
        arms = []
        from ..escape import path_condition
        for n in ast.walk(f.node):
            if isinstance(n, ast.Return) and isinstance(n.value, ast.Call) and norm(n.value.func) == 'cls.from_bytes':
                # everything that holds where the object is built: enclosing tests and earlier guard clauses
                conj = []
                for t_, pol in path_condition(n):
                    if pol:
                        conj.extend(t_.values if isinstance(t_, ast.BoolOp) and isinstance(t_.op, ast.And) else [t_])
                    elif isinstance(t_, ast.UnaryOp) and isinstance(t_.op, ast.Not):
                        x_ = t_.operand
                        conj.extend(x_.values if isinstance(x_, ast.BoolOp) and isinstance(x_.op, ast.And) else [x_])
                if conj:
                    test_ = conj[0] if len(conj) == 1 else ast.BoolOp(op=ast.And(), values=conj)
                    call_ = common.resolved(f, n.value, repo)
                    arms.append((test_, call_))
        ok_arm = None
        reasons = []
        for test, call in arms:
            facts = matcher_facts(repo, test, f, var)
            if facts is None:
                reasons.append('unparsed matcher `%s`' % norm(test)[:50])
                continue
            length, at, sl = facts
            if length != len(tpl):
                reasons.append('length %s vs template %d' % (length, len(tpl)))
                continue
            bad = [k for k, v in at.items() if k >= len(tpl) or tpl[k] != v]
            for (lo, hi), bs in sl.items():
                for k in range(lo, hi):
                    if tpl[k] != bs[k - lo]:
                        bad.append(k)
            if bad:
                reasons.append('bytes at %s differ' % sorted(set(bad)))
                continue
            # payload slice
            parg = None
            for a in call.args:
                if isinstance(a, ast.Subscript) and norm(a.value) == var and isinstance(a.slice, ast.Slice):
                    # the matcher pins the script length: absent bounds and bounds past the end are the ends
                    lo__ = 0 if a.slice.lower is None else repo.fold(a.slice.lower, f.module)
                    hi__ = length if a.slice.upper is None else repo.fold(a.slice.upper, f.module)
                    if a.slice.step is None and isinstance(lo__, int) and isinstance(hi__, int) and not isinstance(lo__, bool):
                        lo__ = max(0, length + lo__) if lo__ < 0 else min(lo__, length)
                        hi__ = max(0, length + hi__) if hi__ < 0 else min(hi__, length)
                    parg = (lo__, hi__)
            pos = [k for k, v in enumerate(tpl) if v == 'P']
            if parg != (pos[0], pos[-1] + 1):
                reasons.append('payload slice %s, placeholder at [%d:%d]' % (parg, pos[0], pos[-1] + 1))
                continue
            ok_arm = (test, call)
        tpl_txt = ' '.join('%02x' % v if isinstance(v, int) else '..' for v in tpl[:6]) + ' ... (%d bytes)' % len(tpl)
        if ok_arm:
            r.ok('%s:round-trip' % cname, f.site, 'builder %s matches `%s` and the payload slice' % (tpl_txt, norm(ok_arm[0])[:60]))
        else:
            r.violated('%s:round-trip' % cname, f.site, 'the script built by %s.to_scriptPubKey (%s) is not mapped back to the same payload by from_scriptPubKey: %s' % (cname, tpl_txt, '; '.join(reasons) or 'no matcher arm'))
        # the chain guard of the builder
        asserts = [norm(n.test) for n in walk_no_nested(b.node) if isinstance(n, ast.Assert)]
        r.note('%s.to_scriptPubKey asserts %s' % (cname, asserts))
        # a segwit address object always has witness version 0 (from_bytes refuses the others): an assertion in the builder
        # that fails for version 0 fails for every address
        from ..rules import equiv as _eqa
        for n in walk_no_nested(b.node):
            if isinstance(n, ast.Assert) and 'witver' in norm(n.test):
                v_ = _eqa(norm(n.test), 'self.witver == 0')
                if v_ is True:
                    r.ok('%s:builder-assert' % cname, common.site_of(b, n), 'holds for every address object')
                elif v_ is False:
                    r.violated('%s:builder-assert' % cname, common.site_of(b, n), '%s.to_scriptPubKey asserts `%s`; every %s has witness version 0, so the script of a valid address can no longer be built'
                               % (cname, norm(n.test), cname), sure=True)
                else:
                    r.undecided('%s:builder-assert' % cname, common.site_of(b, n), 'assertion `%s` not compared with witver == 0' % norm(n.test))
        # every arm that builds an address from a slice of the script: the slice has the payload length of the class and
        # sits where the matcher of that arm puts the program (witness forms: after the 2 or 3 bytes the predicate fixes)
        for test, call in arms:
            for a in call.args:
                if isinstance(a, ast.Subscript) and norm(a.value) == var and isinstance(a.slice, ast.Slice):
                    lo_, hi_ = repo.fold(a.slice.lower, f.module), repo.fold(a.slice.upper, f.module)
                    t_ = norm(test)
                    if a.slice.upper is None and a.slice.step is None:
                        hi_ = 1 << 30  # to the end of the script, whose length the predicate pins
                    if a.slice.lower is None:
                        lo_ = 0
                    where = None
                    if 'is_witness_v0_nested_keyhash' in t_ or 'is_witness_v0_nested_scripthash' in t_:
                        where = 3
                    elif 'is_witness_v0_keyhash' in t_ or 'is_witness_v0_scripthash' in t_:
                        where = 2
                    if where is not None and isinstance(lo_, int) and isinstance(hi_, int):
                        want_len = 32 if 'scripthash' in t_ else 20
                        hi_ = min(hi_, where + want_len) if hi_ >= 0 else hi_  # the predicate pins the script length: a bound beyond the end is the end
                        r.check((lo_, hi_) == (where, where + want_len), '%s:payload:%s' % (cname, t_[:40]), common.site_of(f, a), 'program bytes [%d:%d]' % (where, where + want_len),
                                '%s.from_scriptPubKey takes `%s` under `%s`; the %d-byte program sits at [%d:%d]' % (cname, norm(a), t_[:50], want_len, where, where + want_len), sure=True)
    # from_scriptPubKey passes the selected chain's version
    for cname, key in (('P2PKHBitcoinAddress', 'PUBKEY_ADDR'), ('P2SHBitcoinAddress', 'SCRIPT_ADDR')):
        ci = repo.get_class(W + cname)
        f = repo.lookup_method(ci, 'from_scriptPubKey')
        vers = {norm(c.args[1]) for c in common.iter_calls(f.node) if norm(c.func) == 'cls.from_bytes' and len(c.args) == 2}
        r.check(vers == {"bitcoin.params.BASE58_PREFIXES['%s']" % key}, '%s:version' % cname, f.site, 'version byte of the selected chain', '%s.from_scriptPubKey uses version %s' % (cname, sorted(vers)))
        fb = repo.lookup_method(ci, 'from_bytes')
        d = fb.defaults().get('nVersion')
        r.check(d is not None and norm(d) == 'None', '%s:from_bytes-default' % cname, fb.site, 'default version resolved inside the function',
                '%s.from_bytes has default nVersion=%s, evaluated once at import' % (cname, norm(d) if d is not None else None))
        # ... and it IS resolved there: `if nVersion is None: nVersion = <the selected chain's version>`
        res = [n for n in fb.node.body if isinstance(n, ast.If) and canon_guard(n.test, repo, fb.module) == 'nVersion is None']
        if len(res) == 1 and len(res[0].body) == 1 and isinstance(res[0].body[0], ast.Assign) and norm(res[0].body[0].targets[0]) == 'nVersion' \
                and norm(common.resolved(fb, res[0].body[0].value, repo)) == "bitcoin.params.BASE58_PREFIXES['%s']" % key:
            r.ok('%s:from_bytes-resolves' % cname, common.site_of(fb, res[0]), 'None -> version byte of the selected chain')
        elif len(res) == 1 and any(isinstance(x, ast.Assign) and norm(x.targets[0]) == 'nVersion' for x in res[0].body):
            r.undecided('%s:from_bytes-resolves' % cname, common.site_of(fb, res[0]), 'a missing version is replaced by `%s`, which was not recognised as the selected chain\'s %s byte'
                        % (norm(res[0].body[0].value)[:50] if isinstance(res[0].body[0], ast.Assign) else '?', key))
        elif any(isinstance(n, ast.If) and canon_guard(n.test, repo, fb.module) in ('nVersion is not None', 'nVersion is None') for n in fb.node.body):
            n0 = [n for n in fb.node.body if isinstance(n, ast.If) and canon_guard(n.test, repo, fb.module) in ('nVersion is not None', 'nVersion is None')][0]
            r.violated('%s:from_bytes-resolves' % cname, common.site_of(fb, n0), '%s.from_bytes no longer replaces a missing version by the selected chain\'s %s byte (`if %s: %s`): '
                       'from_bytes(hash) fails or builds an address with the version None' % (cname, key, norm(n0.test), '; '.join(norm(x) for x in n0.body)[:60]), sure=True)
        else:
            r.undecided('%s:from_bytes-resolves' % cname, fb.site, 'how a missing version is resolved was not recognised')


def rule_selection(ctx, repo):
    r = ctx.rule('C12.D1', 'class selection: base58 by version byte of the selected chain, bech32 by program length for version 0; text dispatch bech32 then base58', engine='RULES', floor=6)
    c58 = repo.get_class(W + 'CBase58BitcoinAddress')
    fb = c58.methods['from_bytes']
    arms = {}
    for n in ast.walk(fb.node):
        if isinstance(n, ast.If):
            t = norm(n.test)
            asg = [norm(s) for s in n.body]
            arms[t] = asg
    r.check(arms.get("nVersion == bitcoin.params.BASE58_PREFIXES['SCRIPT_ADDR']") == ['self.__class__ = P2SHBitcoinAddress'], 'base58:script', fb.site, 'SCRIPT_ADDR -> P2SH', 'script-address arm: %s' % arms)
    r.check(arms.get("nVersion == bitcoin.params.BASE58_PREFIXES['PUBKEY_ADDR']") == ['self.__class__ = P2PKHBitcoinAddress'], 'base58:pubkey', fb.site, 'PUBKEY_ADDR -> P2PKH', 'pubkey-address arm: %s' % arms)
    els = [n for n in ast.walk(fb.node) if isinstance(n, ast.Raise) and isinstance(n.exc, ast.Call)]
    r.check(any(norm(n.exc.func) == 'CBitcoinAddressError' for n in els), 'base58:other-version', fb.site, 'any other version byte is refused with the address error', 'other version bytes are not refused with CBitcoinAddressError')
    c32 = repo.get_class(W + 'CBech32BitcoinAddress')
    f2 = c32.methods['from_bytes']
    arms = {}
    for n in ast.walk(f2.node):
        if isinstance(n, ast.If):
            arms[canon_guard(n.test, repo, f2.module)] = [norm(s) for s in n.body]
    r.check(arms.get('len(self) == 32') == ['self.__class__ = P2WSHBitcoinAddress'] and arms.get('len(self) == 20') == ['self.__class__ = P2WPKHBitcoinAddress'], 'bech32:length', f2.site,
            '32 -> P2WSH, 20 -> P2WPKH', 'program-length arms are %s' % arms)
    ver = [(g, b) for g, b in arms.items() if 'witver' in g]
    ok = any(g == 'witver != 0' and any('CBitcoinAddressError' in x for x in b) for g, b in ver)
    r.check(ok, 'bech32:version', f2.site, 'versions other than 0 are refused with the address error', 'witness-version handling is %s' % ver)
    # ... and refused before a class is chosen: every assignment of a segwit v0 class happens where the version is known to be 0

    def vcond(test):
        g = canon_guard(test, repo, f2.module)
        if g == 'witver != 0':
            return frozenset(['other']), frozenset(['v0'])
        if g == 'witver == 0':
            return frozenset(['v0']), frozenset(['other'])
        return frozenset(), frozenset()
    mfv = flow.run_must(f2.node, cond=vcond)
    for n in ast.walk(f2.node):
        if isinstance(n, ast.Assign) and norm(n.targets[0]) == 'self.__class__':
            facts = mfv.at.get(id(n), frozenset())
            r.check('v0' in facts, 'bech32:version-first:%s' % norm(n.value), common.site_of(f2, n), 'chosen only for witness version 0',
                    '`%s` is reached without the witness version having been tested: a version 1..16 program of this length becomes a version-0 address object (and prints as one)' % norm(n))
    top = repo.get_class(W + 'CBitcoinAddress')
    nw = top.methods['__new__']
    tries = [n for n in walk_no_nested(nw.node) if isinstance(n, ast.Try)]
    order = []
    text = nw.params[1]
    for t in tries:
        calls = [norm(c.func) for c in ast.walk(t) if isinstance(c, ast.Call)]
        hs = [norm(h.type) for h in t.handlers]
        order.append((calls[0] if calls else None, hs))
        # the text reaches each codec as given: case rules (BIP173: no mixed case) and characters are the codec's to judge
        for c in ast.walk(t):
            if isinstance(c, ast.Call) and norm(c.func) in ('CBech32BitcoinAddress', 'CBase58BitcoinAddress'):
                args = [norm(a) for a in c.args]
                r.check(args == [text], 'text-dispatch:argument:%s' % norm(c.func), common.site_of(nw, c), 'the text is handed to the codec unchanged',
                        '%s is called with `%s`, not with the text itself: what the codec would refuse (mixed-case bech32, for instance) can be normalised away before it looks' % (norm(c.func), ', '.join(args)))
    r.check(order == [('CBech32BitcoinAddress', ['bitcoin.bech32.Bech32Error']), ('CBase58BitcoinAddress', ['bitcoin.base58.Base58Error'])], 'text-dispatch', nw.site,
            'bech32 first, then base58, each absorbing only its own codec error', 'text dispatch is %s' % order)
    last = [s for s in nw.node.body if isinstance(s, ast.Raise)]
    r.check(len(last) == 1 and norm(last[0].exc.func) == 'CBitcoinAddressError', 'text-dispatch:refusal', nw.site, 'otherwise CBitcoinAddressError', 'fallback is not CBitcoinAddressError')


def rule_escape(ctx, repo, eng):
    r = ctx.rule('C12.X1', 'parsing text and classifying scripts let only the address error escape', engine='ESCAPE', floor=2)
    res = Resolver(repo, eng)
    ee = Escape(repo, res)
    err = repo.get_class(W + 'CBitcoinAddressError')
    from .c07 import script_justified
    just = script_justified(repo, Interp(repo))
    top = repo.get_class(W + 'CBitcoinAddress')

    # CBase58Data.from_bytes / CBech32Data.from_bytes range checks: the version is a byte of the decoded string /
    # a 5-bit symbol already limited to <= 16 by segwit_addr.decode
    def b58_version(e):
        new = repo.find_method('bitcoin.base58.CBase58Data', '__new__')
        calls = [c for c in common.iter_calls(new.node) if norm(c.func) == 'cls.from_bytes']
        if len(calls) != 1 or len(calls[0].args) != 2:
            return False, ''
        v = common.resolved(new, calls[0].args[1], repo)
        ok = isinstance(v, ast.Subscript) and not isinstance(v.slice, ast.Slice)
        base_ = v.value if ok else None
        while isinstance(base_, ast.Subscript) and isinstance(base_.slice, ast.Slice):
            base_ = base_.value
        ok = ok and isinstance(base_, ast.Call) and norm(base_.func) in ('decode', 'bitcoin.base58.decode')
        return bool(ok), 'the version passed by the text parser is one byte of the decoded string (0..255)'
    just[('bitcoin.base58.CBase58Data.from_bytes', "ValueError('nVersion must be in range 0 to 255")] = b58_version

    def b32_version(e):
        dec = repo.get_function('bitcoin.segwit_addr.decode')
        gs = [canon_guard(n.test, repo, dec.module) for n in walk_no_nested(dec.node) if isinstance(n, ast.If)]
        return 'data[0] > 16' in gs, 'segwit_addr.decode has already refused versions above 16; symbols are non-negative'
    just[('bitcoin.bech32.CBech32Data.from_bytes', "ValueError('witver must be in range 0 to 16")] = b32_version

    def version_mismatch(kind):
        def check(e):
            # P2SH/P2PKH.from_bytes(data, nVersion): reached from from_scriptPubKey with the selected chain's own prefix
            return True, 'from_scriptPubKey passes bitcoin.params.BASE58_PREFIXES[%r] itself, so `nVersion != <same read>` is false (C12.T1 checks the argument)' % kind
        return check
    just[('bitcoin.wallet.P2SHBitcoinAddress.from_bytes', "ValueError('nVersion incorrect for P2SH address")] = version_mismatch('SCRIPT_ADDR')
    just[('bitcoin.wallet.P2PKHBitcoinAddress.from_bytes', "ValueError('nVersion incorrect for P2PKH address")] = version_mismatch('PUBKEY_ADDR')
    rule_entry(r, repo, ee, top.methods['__new__'], [err], 'CBitcoinAddress(text)', ctx=top, justified=just)
    rule_entry(r, repo, ee, top.methods['from_scriptPubKey'], [err], 'CBitcoinAddress.from_scriptPubKey', ctx=top, justified=just)
    for a in sorted(set(ee.applied))[:10]:
        r.note(a)
    for (f, t) in sorted(ee.unresolved)[:12]:
        r.note('unresolved call: %s in %s' % (t, f))
