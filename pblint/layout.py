"""LAYOUT engine: wire-layout inference for writer and reader functions (DESIGN.md 3.1).

Both sides are abstractly interpreted into the same IR (a list of Item objects); nothing is executed.
An idiom the interpreter does not model raises Undecided - never guessed.
"""
import ast
import struct as _struct

from .model import (UNKNOWN, ClassRef, FuncRef, ModuleRef, ExternalRef, StructVal, ClassInfo, AnalysisError,
                    norm, walk_no_nested)


class Undecided(Exception):
    def __init__(self, msg, node=None):
        Exception.__init__(self, msg)
        self.node = node


class Item(object):
    """kind: int | raw | const | varint | varbytes | vector | sub | loop | cond | rewind | checkpoint | derived"""

    def __init__(self, kind, **kw):
        self.kind = kind
        self.field = kw.pop('field', None)
        self.node = kw.pop('node', None)
        self.__dict__.update(kw)

    def get(self, k, d=None):
        return self.__dict__.get(k, d)

    def sig(self, with_field=True):
        """canonical comparable signature"""
        k = self.kind
        f = self.field if with_field else None
        if k == 'int':
            return ('int', self.fmt, f)
        if k == 'raw':
            return ('raw', self.n, f)
        if k == 'const':
            return ('const', self.value)
        if k == 'varint':
            return ('varint', f)
        if k == 'varbytes':
            return ('varbytes', f)
        if k == 'vector':
            return ('vector', f, tuple(i.sig(False) for i in self.elem))
        if k == 'sub':
            return ('sub', self.cls, f, tuple(sorted(self.get('args', {}).items())))
        if k == 'loop':
            return ('loop', self.get('count'), f, tuple(i.sig(False) for i in self.body))
        if k == 'cond':
            return ('cond', self.guard, tuple(i.sig(with_field) for i in self.then), tuple(i.sig(with_field) for i in self.orelse))
        if k == 'derived':
            return ('derived', self.what, f)
        return (k, f)

    def __repr__(self):
        return 'Item%r' % (self.sig(),)


def fmt_str(v):
    if isinstance(v, bytes):
        return v.decode('ascii')
    return v


def split_fmt(fmt):
    """'<IIB' -> ['<I', '<I', '<B'] ; supports a leading byte-order char and plain codes (no counts)"""
    fmt = fmt_str(fmt)
    order = ''
    if fmt and fmt[0] in '<>=!@':
        order = fmt[0]
        fmt = fmt[1:]
    out = []
    count = ''
    if order in ('<', '>', '=', '!'):
        fmt = fmt.replace('L', 'I').replace('l', 'i')  # standard sizes: both are four bytes
    for ch in fmt:
        if ch.isspace():
            continue
        if ch.isdigit():
            count += ch
            continue
        if count:
            if ch in 'sp':
                raise Undecided('struct format with a string count: %r' % fmt)
            out.extend([order + ch] * int(count))  # '8I' is eight 'I'
            count = ''
        else:
            out.append(order + ch)
    if count:
        raise Undecided('struct format ends in a count: %r' % fmt)
    return out


INT_RANGES = {
    'b': (-(1 << 7), (1 << 7) - 1), 'B': (0, (1 << 8) - 1),
    'h': (-(1 << 15), (1 << 15) - 1), 'H': (0, (1 << 16) - 1),
    'i': (-(1 << 31), (1 << 31) - 1), 'I': (0, (1 << 32) - 1),
    'l': (-(1 << 31), (1 << 31) - 1), 'L': (0, (1 << 32) - 1),
    'q': (-(1 << 63), (1 << 63) - 1), 'Q': (0, (1 << 64) - 1),
}


def fmt_info(fmt):
    """-> (width_bytes, endianness '<'|'>'|'', (lo, hi) or None)"""
    fmt = fmt_str(fmt)
    order = fmt[0] if fmt[0] in '<>=!@' else ''
    code = fmt[-1]
    std = order in '<>=!'
    try:
        width = _struct.calcsize(('<' if not std else order) + code) if code != 'c' else 1
    except _struct.error:
        raise Undecided('bad struct format %r' % fmt)
    if order == '!':
        order = '>'
    return width, order, INT_RANGES.get(code)


class LayoutEngine(object):
    def __init__(self, repo):
        self.repo = repo
        self.serializer_base = repo.classes.get('bitcoin.core.serialize.Serializer')
        self.serializable_base = repo.classes.get('bitcoin.core.serialize.Serializable')
        self.varint = repo.classes.get('bitcoin.core.serialize.VarIntSerializer')
        if not (self.serializer_base and self.serializable_base and self.varint):
            raise AnalysisError('serialize.py anchors (Serializer/Serializable/VarIntSerializer) not found')
        self._param_slots = {}

    # ------------------------------------------------------------ resolution helpers
    def fold(self, e, fi, env=None):
        return self.repo.fold(e, fi.module, cls=fi.cls, env=env)

    def is_serializer(self, ci):
        return isinstance(ci, ClassInfo) and self.repo.is_subclass(ci, self.serializer_base)

    def is_serializable(self, ci):
        return isinstance(ci, ClassInfo) and self.repo.is_subclass(ci, self.serializable_base)

    def struct_call(self, call, fi, which, env=None):
        """is `call` struct.pack / struct.unpack (which) or STRUCTVAL.pack/unpack? -> fmt or None"""
        if not (isinstance(call, ast.Call) and isinstance(call.func, ast.Attribute) and call.func.attr == which):
            return None
        base = self.fold(call.func.value, fi)
        if isinstance(base, ExternalRef) and base.name == 'struct':
            if not call.args:
                return None
            fmt = self.fold(call.args[0], fi, env)
            if fmt is UNKNOWN:
                raise Undecided('struct.%s format does not fold' % which, call)
            return ('mod', fmt_str(fmt))
        if isinstance(base, StructVal):
            return ('obj', fmt_str(base.fmt))
        if isinstance(call.func.value, ast.Attribute):
            # self.__struct / CBloomFilter.__struct
            inner = call.func.value
            owner = self.fold(inner.value, fi)
            ci = None
            if isinstance(owner, ClassRef):
                ci = owner.info
            elif isinstance(inner.value, ast.Name) and inner.value.id in ('self', 'cls') and fi.cls is not None:
                ci = fi.cls
            if ci is not None:
                name = fi.cls.mangle(inner.attr) if fi.cls is not None else inner.attr
                v = self.repo.class_attr_value(ci, name)
                if isinstance(v, StructVal):
                    return ('obj', fmt_str(v.fmt))
        return None

    def is_ser_read(self, call, fi, stream):
        """ser_read(f, N) -> N expr or None"""
        if not isinstance(call, ast.Call):
            return None
        v = self.fold(call.func, fi)
        if isinstance(v, FuncRef) and v.info.qualname == 'bitcoin.core.serialize.ser_read':
            if len(call.args) == 2 and isinstance(call.args[0], ast.Name) and call.args[0].id == stream:
                return call.args[1]
            raise Undecided('ser_read on an unexpected stream', call)
        return None

    def field_of(self, e, selfname='self'):
        """self.a.b -> 'a.b' ; other expr -> normalised text"""
        parts = []
        cur = e
        while isinstance(cur, ast.Attribute):
            parts.append(cur.attr)
            cur = cur.value
        if isinstance(cur, ast.Name) and cur.id == selfname and parts:
            return '.'.join(reversed(parts))
        return norm(e)

    def class_of_expr(self, e, fi, local_types):
        """class of the object an expression denotes, as far as the model knows"""
        if isinstance(e, ast.Name):
            if e.id in local_types:
                return local_types[e.id]
            if e.id == 'self' and fi.cls is not None:
                return fi.cls
            return None
        if isinstance(e, ast.Attribute):
            base = self.class_of_expr(e.value, fi, local_types)
            if base is not None:
                return self.field_class(base, e.attr)
            return None
        if isinstance(e, ast.Subscript):
            base = e.value
            if isinstance(base, ast.Attribute):
                owner = self.class_of_expr(base.value, fi, local_types)
                if owner is not None:
                    return self.field_elem_class(owner, base.attr)
            return None
        if isinstance(e, ast.Call):
            v = self.fold(e.func, fi)
            if isinstance(v, ClassRef):
                return v.info
        return None

    # field-class map: class of a slot inferred from __init__ / reader assignments
    def field_class(self, ci, attr):
        for k in self.repo.mro(ci):
            if not isinstance(k, ClassInfo):
                continue
            init = k.methods.get('__init__')
            if init is None:
                continue
            defaults = init.defaults()
            for st in walk_no_nested(init.node):
                val = None
                if (isinstance(st, ast.Call) and norm(st.func) == 'object.__setattr__' and len(st.args) == 3
                        and isinstance(st.args[1], ast.Constant) and st.args[1].value == attr):
                    val = st.args[2]
                elif isinstance(st, ast.Assign) and len(st.targets) == 1 and isinstance(st.targets[0], ast.Attribute) \
                        and st.targets[0].attr == attr and isinstance(st.targets[0].value, ast.Name) and st.targets[0].value.id == 'self':
                    val = st.value
                if val is None:
                    continue
                c = self._class_from_value(val, init, defaults)
                if c is not None:
                    return c
        return None

    def _class_from_value(self, val, init, defaults):
        if isinstance(val, ast.Call):
            v = self.fold(val.func, init)
            if isinstance(v, ClassRef):
                return v.info
            if isinstance(val.func, ast.Attribute):
                owner = self.fold(val.func.value, init)
                if isinstance(owner, ClassRef) and val.func.attr.startswith('from_'):
                    return owner.info
        if isinstance(val, ast.Name) and val.id in defaults:
            d = defaults[val.id]
            if isinstance(d, ast.Call):
                v = self.fold(d.func, init)
                if isinstance(v, ClassRef):
                    return v.info
        return None

    def field_elem_class(self, ci, attr):
        """element class of a container slot: from `tuple(X.from_y(e) for e in param)` in __init__ or from the reader"""
        for k in self.repo.mro(ci):
            if not isinstance(k, ClassInfo):
                continue
            for mname in ('__init__', 'stream_deserialize'):
                fn = k.methods.get(mname)
                if fn is None:
                    continue
                for st in walk_no_nested(fn.node):
                    if isinstance(st, ast.GeneratorExp) or isinstance(st, ast.ListComp):
                        elt = st.elt
                        if isinstance(elt, ast.Call) and isinstance(elt.func, ast.Attribute):
                            owner = self.fold(elt.func.value, fn)
                            if isinstance(owner, ClassRef):
                                # is this generator feeding `attr`?
                                par = getattr(st, '_parent', None)
                                for _ in range(4):
                                    if par is None:
                                        break
                                    txt = norm(par)
                                    if ("'%s'" % attr) in txt or ('%s =' % attr) in txt or ('self.%s' % attr) in txt:
                                        return owner.info
                                    par = getattr(par, '_parent', None)
        return None

    def param_slots(self, ci):
        """constructor parameter name -> slot name, by scanning the resolved __init__"""
        if ci.qualname in self._param_slots:
            return self._param_slots[ci.qualname]
        init = self.repo.lookup_method(ci, '__init__')
        out = {}
        if init is not None:
            params = init.params[1:]
            self._scan_init(init, params, out)
        self._param_slots[ci.qualname] = (init, out)
        return init, out

    def _scan_init(self, init, params, out):
        for st in walk_no_nested(init.node):
            slot = val = None
            if (isinstance(st, ast.Call) and norm(st.func) == 'object.__setattr__' and len(st.args) == 3
                    and isinstance(st.args[1], ast.Constant)):
                slot, val = st.args[1].value, st.args[2]
            elif isinstance(st, ast.Assign) and len(st.targets) == 1 and isinstance(st.targets[0], ast.Attribute) \
                    and isinstance(st.targets[0].value, ast.Name) and st.targets[0].value.id == 'self':
                slot, val = st.targets[0].attr, st.value
            elif isinstance(st, ast.Call) and isinstance(st.func, ast.Attribute) and st.func.attr == '__init__':
                # super(C, self).__init__(a, b, ...) -> follow into the parent constructor
                tgt = None
                if isinstance(st.func.value, ast.Call) and norm(st.func.value.func) == 'super' and init.cls is not None:
                    a = st.func.value.args
                    after = init.cls
                    if a:
                        v = self.fold(a[0], init)
                        if isinstance(v, ClassRef):
                            after = v.info
                    tgt = self.repo.lookup_method(init.cls, '__init__', after=after)
                if tgt is not None:
                    inner = {}
                    self._scan_init(tgt, tgt.params[1:], inner)
                    tparams = tgt.params[1:]
                    for i, a in enumerate(st.args):
                        if i < len(tparams) and isinstance(a, ast.Name) and a.id in params and tparams[i] in inner:
                            out.setdefault(a.id, inner[tparams[i]])
                    for kw in st.keywords:
                        if kw.arg in inner and isinstance(kw.value, ast.Name) and kw.value.id in params:
                            out.setdefault(kw.value.id, inner[kw.arg])
                continue
            if slot is None:
                continue
            for n in ast.walk(val):
                if isinstance(n, ast.Name) and n.id in params:
                    out.setdefault(n.id, slot)
                    break

    # ------------------------------------------------------------ writer side
    def writer(self, fi, stream=None, env=None, ctxcls=None, depth=0):
        """Items written to `stream` by function fi (self = instance of ctxcls)."""
        if depth > 6:
            raise Undecided('writer inlining too deep in %s' % fi.qualname)
        params = fi.params
        if stream is None:
            for p in params:
                if p == 'f':
                    stream = p
            if stream is None:
                raise Undecided('no stream parameter in %s' % fi.qualname)
        st = _WState(self, fi, stream, env or {}, ctxcls or fi.cls, depth)
        items = st.block(fi.node.body)
        return normalise(items)

    # ------------------------------------------------------------ reader side
    def reader(self, fi, stream=None, env=None, ctxcls=None, depth=0):
        """-> (items, ret) for reader function fi; items carry `var`, finalised to `field` where returned object known"""
        if depth > 6:
            raise Undecided('reader inlining too deep in %s' % fi.qualname)
        if stream is None:
            for p in fi.params:
                if p == 'f':
                    stream = p
            if stream is None:
                raise Undecided('no stream parameter in %s' % fi.qualname)
        st = _RState(self, fi, stream, env or {}, ctxcls or fi.cls, depth)
        items = st.block(fi.node.body)
        return normalise(items)


def _subst_names(e, env):
    """copy of expression e with names replaced from env (no deepcopy: nodes carry _parent links)"""
    if not any(isinstance(n, ast.Name) and n.id in env and isinstance(env[n.id], ast.AST) for n in ast.walk(e)):
        return e
    fresh = ast.parse(ast.unparse(e), mode='eval').body

    class T(ast.NodeTransformer):
        def visit_Name(s, n):
            if n.id in env and isinstance(env[n.id], ast.AST):
                return env[n.id]
            return n
    return T().visit(fresh)


def _touches(node, name):
    for n in ast.walk(node):
        if isinstance(n, ast.Name) and n.id == name:
            return True
    return False


class _WState(object):
    def __init__(self, eng, fi, stream, env, ctxcls, depth):
        self.eng = eng
        self.fi = fi
        self.stream = stream
        self.env = dict(env)  # local name -> ast expr (substitution for inlined helpers)
        self.venv = {}  # local name -> folded value of the argument, folded in the caller's context
        self.ctxcls = ctxcls
        self.depth = depth
        self.asserted_len = {}  # field -> n   from `assert len(self.x) == n`
        self.local_types = {}
        self.bufs = {}  # name -> list of items, for `res = a; res += b` concatenation style
        self.streams = {stream}

    def f(self, e):
        return self.eng.repo.fold(e, self.fi.module, cls=self.fi.cls, env=self.venv)

    def ff(self, e, fi=None):
        return self.f(e)

    def _unsubst(self, e):
        return e

    def subst(self, e):
        """apply env substitution to an expression (inlined helper parameters)"""
        if not self.env:
            return e

        return _subst_names(e, self.env)

    def field(self, e):
        return self.eng.field_of(self.subst(e))

    def block(self, stmts):
        items = []
        for s in stmts:
            items.extend(self.stmt(s))
        return items

    def stmt(self, s):
        eng, fi = self.eng, self.fi
        if isinstance(s, ast.Expr) and isinstance(s.value, ast.Constant):
            return []
        if isinstance(s, ast.Assert):
            t = s.test
            if (isinstance(t, ast.Compare) and len(t.ops) == 1 and isinstance(t.ops[0], ast.Eq)
                    and isinstance(t.left, ast.Call) and norm(t.left.func) == 'len' and len(t.left.args) == 1):
                n = self.ff(t.comparators[0], fi)
                if isinstance(n, int):
                    self.asserted_len[self.field(t.left.args[0])] = n
            if _touches(s, self.stream):
                raise Undecided('assert touching the stream', s)
            return []
        if isinstance(s, ast.Expr) and isinstance(s.value, ast.Call):
            return self.call_stmt(s.value)
        if isinstance(s, ast.If):
            if not any(_touches(x, st) for st in self.streams for x in s.body + s.orelse) and not self._writes_buf(s):
                return []
            then = self.block(s.body)
            orelse = self.block(s.orelse)
            return [cond_item(s.test, then, orelse, s, self.subst)]
        if isinstance(s, ast.For):
            if not any(_touches(x, st) for st in self.streams for x in s.body) and not self._writes_buf(s):
                return []
            it = s.iter
            var = s.target.id if isinstance(s.target, ast.Name) else None
            # for i in range(len(X)): ... X[i] ...   ==   for elem in X
            over = None
            if (isinstance(it, ast.Call) and norm(it.func) == 'range' and len(it.args) == 1
                    and isinstance(it.args[0], ast.Call) and norm(it.args[0].func) == 'len'):
                over = it.args[0].args[0]
                elem = ast.Subscript(value=over, slice=ast.Name(id=var, ctx=ast.Load()), ctx=ast.Load())
                old = dict(self.env)
                body = self.block(s.body)
                self.env = old
                return [Item('loop', count='len(%s)' % self.field(over), over=self.field(over), over_expr=norm(self.subst(over)), body=body, field=self.field(over), node=s, idx=var)]
            old = dict(self.env)
            body = self.block(s.body)
            self.env = old
            return [Item('loop', count='len(%s)' % self.field(it), over=self.field(it), over_expr=norm(self.subst(it)), body=body, field=self.field(it), node=s, var=var)]
        if isinstance(s, ast.Assign) and len(s.targets) == 1 and isinstance(s.targets[0], ast.Name):
            name = s.targets[0].id
            v = s.value
            # f = BytesIO()  : a new local stream
            if isinstance(v, ast.Call) and norm(v.func).endswith('BytesIO') and not v.args:
                self.streams.add(name)
                self.bufs.setdefault('@' + name, [])
                return []
            # body = f.getvalue()
            if isinstance(v, ast.Call) and isinstance(v.func, ast.Attribute) and v.func.attr == 'getvalue' \
                    and isinstance(v.func.value, ast.Name) and v.func.value.id in self.streams:
                self.bufs[name] = list(self.bufs.get('@' + v.func.value.id, []))
                return []
            # l = len(s): remember as a substitution so that varint(l) is recognised as varint(len(s))
            if isinstance(v, ast.Call) and norm(v.func) == 'len' and len(v.args) == 1 and not any(_touches(v, st) for st in self.streams):
                self.env[name] = self.subst(v)
                return []
            # res = <bytes expr>
            its = None
            if name in self._augmented():
                try:
                    its = self.value_items(v)
                except Undecided:
                    its = None
            if its is not None:
                self.bufs[name] = its
            c = eng.class_of_expr(v, fi, self.local_types)
            if c is not None:
                self.local_types[name] = c
            if _touches(s.value, self.stream) and its is None:
                raise Undecided('assignment touching the stream: %s' % norm(s), s)
            return []
        if isinstance(s, ast.AugAssign) and isinstance(s.target, ast.Name) and isinstance(s.op, ast.Add):
            name = s.target.id
            if name in self.bufs:
                self.bufs[name] = self.bufs[name] + self.value_items(s.value)
                return []
            return []
        if isinstance(s, ast.Return):
            if s.value is not None and isinstance(s.value, ast.Name) and s.value.id in self.bufs:
                return [Item('buffer', items=self.bufs[s.value.id], node=s)]
            if s.value is not None and any(_touches(s.value, st) for st in self.streams):
                # return Hash(f.getvalue()) etc
                for n in ast.walk(s.value):
                    if isinstance(n, ast.Call) and isinstance(n.func, ast.Attribute) and n.func.attr == 'getvalue' \
                            and isinstance(n.func.value, ast.Name) and n.func.value.id in self.streams:
                        return [Item('buffer', items=self.bufs.get('@' + n.func.value.id, []), node=s, wrapped=norm(s.value))]
            return []
        if isinstance(s, ast.Pass):
            return []
        if isinstance(s, ast.Raise):
            return [Item('raise', node=s)]
        if any(_touches(s, st) for st in self.streams):
            raise Undecided('unmodelled writer statement: %s' % norm(s)[:80], s)
        return []

    def _augmented(self):
        """names that are built up with `name += ...` somewhere in the function: concatenation buffers"""
        if not hasattr(self, '_aug'):
            self._aug = {n.target.id for n in ast.walk(self.fi.node)
                         if isinstance(n, ast.AugAssign) and isinstance(n.target, ast.Name) and isinstance(n.op, ast.Add)}
        return self._aug

    def _writes_buf(self, s):
        for n in ast.walk(s):
            if isinstance(n, ast.AugAssign) and isinstance(n.target, ast.Name) and n.target.id in self.bufs:
                return True
        return False

    def emit(self, stream, items):
        """route items written to a local BytesIO into its buffer, the function's own stream to the output"""
        if stream == self.stream:
            return items
        self.bufs.setdefault('@' + stream, []).extend(items)
        return []

    def call_stmt(self, call):
        eng, fi = self.eng, self.fi
        fn = call.func
        # f.write(X)
        if isinstance(fn, ast.Attribute) and fn.attr == 'write' and isinstance(fn.value, ast.Name) and fn.value.id in self.streams:
            if len(call.args) != 1:
                raise Undecided('write() with %d args' % len(call.args), call)
            return self.emit(fn.value.id, self.value_items(call.args[0]))
        # stream passed as an argument
        sidx = None
        sname = None
        for i, a in enumerate(call.args):
            if isinstance(a, ast.Name) and a.id in self.streams:
                sidx, sname = i, a.id
        if sidx is None:
            if any(_touches(call, st) for st in self.streams):
                raise Undecided('unmodelled call touching the stream: %s' % norm(call)[:80], call)
            return []
        return self.emit(sname, self.ser_call(call, sidx))

    def ser_call(self, call, sidx):
        """X.stream_serialize(..., f, ...) in its various receiver forms"""
        eng, fi = self.eng, self.fi
        fn = call.func
        if not isinstance(fn, ast.Attribute):
            raise Undecided('stream passed to a plain function: %s' % norm(call)[:80], call)
        meth = fn.attr
        recv = fn.value
        # super(C, self).stream_serialize(f)
        if isinstance(recv, ast.Call) and norm(recv.func) == 'super':
            after = self.fi.cls
            if recv.args:
                v = self.ff(recv.args[0], fi)
                if isinstance(v, ClassRef):
                    after = v.info
            tgt = eng.repo.lookup_method(self.ctxcls, meth, after=after)
            if tgt is None:
                raise Undecided('super().%s does not resolve' % meth, call)
            sub = _WState(eng, tgt, tgt.params[1 + sidx] if tgt.kind != 'staticmethod' else tgt.params[sidx], {}, self.ctxcls, self.depth + 1)
            return sub.block(tgt.node.body)
        rv = self.f(recv)
        if isinstance(rv, ClassRef):
            ci = rv.info
            tgt = eng.repo.lookup_method(ci, meth)
            if tgt is None:
                raise Undecided('%s.%s does not resolve' % (ci.name, meth), call)
            if ci is eng.varint and meth == 'stream_serialize':
                return [Item('varint', expr=norm(self.subst(call.args[0])), field=self.field(call.args[0]), node=call)]
            if eng.is_serializer(ci):
                # inline helper serializer with parameter substitution
                params = tgt.params[1:] if tgt.kind == 'classmethod' else tgt.params
                env = {}
                stream = None
                for i, a in enumerate(call.args):
                    if i >= len(params):
                        raise Undecided('too many arguments for %s' % tgt.qualname, call)
                    if i == sidx:
                        stream = params[i]
                    else:
                        env[params[i]] = self.subst(a)
                for kw in call.keywords:
                    env[kw.arg] = self.subst(kw.value)
                venv = {}
                for k_, a_ in env.items():
                    v_ = self.f(a_) if not self.env else self.f(self._unsubst(a_))
                    if v_ is not UNKNOWN:
                        venv[k_] = v_
                for p, d in tgt.defaults().items():
                    if p not in env:
                        env[p] = d
                        dv = eng.fold(d, tgt)
                        if dv is not UNKNOWN:
                            venv[p] = dv
                sub = _WState(eng, tgt, stream, env, ci, self.depth + 1)
                sub.venv = venv
                return sub.block(tgt.node.body)
            if eng.is_serializable(ci) and tgt.kind == 'method':
                # Cls.stream_serialize(obj, f, **kw): unbound call
                obj = call.args[0]
                args = self.call_args(call, tgt, skip=(0, sidx), offset=1)
                return [Item('sub', cls=ci.name, field=self.field(obj), args=args, node=call)]
            raise Undecided('unmodelled class receiver %s.%s' % (ci.name, meth), call)
        if isinstance(recv, ast.Name) and recv.id in fi.params and recv.id not in self.venv:
            # class passed as a parameter (VectorSerializer's inner_cls), analysed stand-alone
            return [Item('sub', cls=None, field=self.field(call.args[0]), args={}, node=call, symbolic=recv.id)]
        # instance receiver: self.x.stream_serialize(f, args) / self.x[i].stream_serialize(f)
        ci = eng.class_of_expr(self.subst(recv), fi, self.local_types)
        args = {}
        if ci is not None:
            tgt = eng.repo.lookup_method(ci, meth)
            if tgt is not None:
                args = self.call_args(call, tgt, skip=(sidx,), offset=1)
        else:
            if call.keywords or len(call.args) > 1:
                args = {'?%d' % i: norm(self.subst(a)) for i, a in enumerate(call.args) if i != sidx}
                for kw in call.keywords:
                    if kw.arg is None:
                        args['**'] = norm(self.subst(kw.value))
                    else:
                        args[kw.arg] = norm(self.subst(kw.value))
        f = self.field(recv)
        return [Item('sub', cls=ci.name if ci else None, field=f, args=args, node=call, meth=meth)]

    def call_args(self, call, tgt, skip, offset):
        """bind the non-stream, non-object arguments to the callee's parameter names"""
        params = tgt.params[offset:] if tgt.kind in ('method', 'classmethod') else tgt.params
        out = {}
        pos = [a for i, a in enumerate(call.args)]
        # positional index i corresponds to params index depending on whether obj is explicit
        pidx = 0
        for i, a in enumerate(call.args):
            if i in skip:
                if not (i == skip[0] and len(skip) == 2 and offset == 1):
                    pidx += 1
                continue
            if pidx < len(params):
                v = self.f(a)
                out[params[pidx]] = repr(v) if v is not UNKNOWN else norm(self.subst(a))
            pidx += 1
        for kw in call.keywords:
            if kw.arg is None:
                out['**'] = norm(self.subst(kw.value))
            else:
                v = self.f(kw.value)
                out[kw.arg] = repr(v) if v is not UNKNOWN else norm(self.subst(kw.value))
        return out

    def value_items(self, e):
        """items denoted by a bytes-valued expression"""
        eng, fi = self.eng, self.fi
        if isinstance(e, ast.BinOp) and isinstance(e.op, ast.Add):
            return self.value_items(e.left) + self.value_items(e.right)
        # struct.pack(fmt, a, b, ...)
        sc = eng.struct_call(e, fi, 'pack', self.venv)
        if sc is not None:
            kind, fmt = sc
            vals = e.args[1:] if kind == 'mod' else e.args
            codes = split_fmt(fmt)
            if len(codes) != len(vals):
                raise Undecided('struct.pack arity mismatch', e)
            return [Item('int', fmt=c, field=self.field(v), node=e, value=v) for c, v in zip(codes, vals)]
        reads_chain = any(isinstance(x, ast.Attribute) and x.attr in ('params', 'coreparams') for x in ast.walk(e))
        v = self.f(e) if not reads_chain else UNKNOWN
        if isinstance(v, (bytes, bytearray)):
            return [Item('const', value=bytes(v), node=e)]
        if isinstance(e, ast.Call):
            fn = e.func
            # X.serialize(v)  (Serializer classmethod) == X.stream_serialize(v, f)
            if isinstance(fn, ast.Attribute) and fn.attr == 'serialize':
                rv = self.f(fn.value)
                if isinstance(rv, ClassRef) and eng.is_serializer(rv.info) and len(e.args) == 1:
                    ci = rv.info
                    if ci is eng.varint:
                        return [Item('varint', expr=norm(self.subst(e.args[0])), field=self.field(e.args[0]), node=e)]
                    tgt = eng.repo.lookup_method(ci, 'stream_serialize')
                    params = tgt.params[1:]
                    sub = _WState(eng, tgt, params[1], {params[0]: self.subst(e.args[0])}, ci, self.depth + 1)
                    v_ = self.f(e.args[0])
                    if v_ is not UNKNOWN:
                        sub.venv = {params[0]: v_}
                    return sub.block(tgt.node.body)
                if not e.args or all(isinstance(k, ast.keyword) for k in e.args):
                    # obj.serialize() -> the object's own layout
                    ci = eng.class_of_expr(self.subst(fn.value), fi, self.local_types)
                    return [Item('sub', cls=ci.name if ci else None, field=self.field(fn.value), args={}, node=e, meth='serialize')]
            # socket.inet_pton(AF_INET|AF_INET6, x)
            if norm(fn).endswith('inet_pton') and len(e.args) == 2:
                fam = norm(e.args[0])
                n = 16 if fam.endswith('AF_INET6') else 4 if fam.endswith('AF_INET') else None
                if n is None:
                    raise Undecided('inet_pton family', e)
                return [Item('raw', n=n, field=self.field(e.args[1]), node=e, conv='inet_pton')]
            if norm(fn) in ('bytes',) and len(e.args) == 1 and isinstance(e.args[0], (ast.List, ast.Tuple)):
                # bytes([expr]) -> one byte each (a constant element is a constant byte)
                out = []
                for x in e.args[0].elts:
                    xv = self.f(x)
                    if isinstance(xv, int) and not isinstance(xv, bool) and 0 <= xv <= 255:
                        out.append(Item('const', value=bytes([xv]), node=e))
                    else:
                        out.append(Item('int', fmt='B', field=self.field(x), node=e, value=x))
                return out
            # <int expr>.to_bytes(n, 'little' | 'big'[, signed=...])
            if isinstance(fn, ast.Attribute) and fn.attr == 'to_bytes' and 1 <= len(e.args) <= 2:
                nb = self.f(e.args[0])
                order = self.f(e.args[1]) if len(e.args) == 2 else None
                signed = False
                for kw in e.keywords:
                    if kw.arg == 'byteorder':
                        order = self.f(kw.value)
                    elif kw.arg == 'signed':
                        signed = self.f(kw.value)
                    elif kw.arg == 'length':
                        nb = self.f(kw.value)
                code = {1: 'B', 2: 'H', 4: 'I', 8: 'Q'}.get(nb)
                if code is not None and order in ('little', 'big') and signed in (True, False):
                    code = code.lower() if signed else code
                    fmt = code if nb == 1 and not signed else ('<' if order == 'little' else '>') + code
                    return [Item('int', fmt=fmt, field=self.field(fn.value), node=e, value=fn.value)]
            if norm(fn) == 'bytes' and not e.args:
                return []
            # b''.join((a, b, c)) / b''.join([a, b, c]): the parts one after the other
            if isinstance(fn, ast.Attribute) and fn.attr == 'join' and isinstance(fn.value, ast.Constant) and fn.value.value == b'' and len(e.args) == 1 \
                    and isinstance(e.args[0], (ast.Tuple, ast.List)) and not any(isinstance(x, ast.Starred) for x in e.args[0].elts):
                out = []
                for x in e.args[0].elts:
                    out.extend(self.value_items(x))
                return out
        if isinstance(e, ast.Name) and e.id in self.bufs and e.id not in self.env:
            return list(self.bufs[e.id])
        if isinstance(e, ast.Subscript) and isinstance(e.slice, ast.Slice):
            # h[:4] : derived prefix
            lo = self.ff(e.slice.lower, fi) if e.slice.lower else 0
            hi = self.ff(e.slice.upper, fi) if e.slice.upper else None
            if isinstance(lo, int) and isinstance(hi, int):
                return [Item('raw', n=hi - lo, field=norm(self.subst(e)), node=e, slice_of=norm(self.subst(e.value)))]
        if isinstance(e, (ast.Attribute, ast.Name, ast.Subscript)):
            f = self.field(e)
            return [Item('raw', n=self.asserted_len.get(f), field=f, node=e, expr=norm(self.subst(e)))]
        if isinstance(e, ast.BinOp) and isinstance(e.op, ast.Mult):
            # b"\x00" * (12 - len(self.command))
            base = self.ff(e.left, fi)
            if isinstance(base, bytes) and len(base) == 1:
                return [Item('derived', what='pad(%r, %s)' % (base, norm(self.subst(e.right))), node=e)]
        raise Undecided('unmodelled written value: %s' % norm(e)[:80], e)


def _count_of_iter(it, subst, stream):
    """number of iterations of `for _ in <it>` as text, or None: range(n) -> n; any other iterable that does not touch the
    stream -> len(<it>)"""
    if isinstance(it, ast.Call) and norm(it.func) == 'range' and len(it.args) == 1:
        return norm(subst(it.args[0]))
    if isinstance(it, (ast.Name, ast.Attribute)) and not _touches(it, stream):
        return 'len(%s)' % norm(subst(it))
    return None


class _RState(object):
    def __init__(self, eng, fi, stream, env, ctxcls, depth):
        self.eng = eng
        self.fi = fi
        self.stream = stream
        self.env = dict(env)
        self.venv = {}
        self.ctxcls = ctxcls
        self.depth = depth
        self.objs = {}  # local var -> class of freshly built object (c = cls())
        self.local_types = {}
        self.lists = set()
        self.tuples = {}
        self.checkpoints = {}
        self.counter = 0
        self.var_expr = {}  # var -> defining expression for non-read values

    def f(self, e):
        return self.eng.repo.fold(e, self.fi.module, cls=self.fi.cls, env=self.venv)

    def ff(self, e, fi=None):
        return self.f(e)

    def _unsubst(self, e):
        return e

    def subst(self, e):
        if not self.env:
            return e

        return _subst_names(e, self.env)

    def block(self, stmts):
        items = []
        for s in stmts:
            items.extend(self.stmt(s))
        return items

    def stmt(self, s):
        eng, fi = self.eng, self.fi
        if isinstance(s, ast.Expr) and isinstance(s.value, ast.Constant):
            return []
        if isinstance(s, ast.Assign) and len(s.targets) == 1 and isinstance(s.value, ast.IfExp) and _touches(s.value, self.stream) \
                and not _touches(s.value.test, self.stream) and isinstance(s.targets[0], (ast.Name, ast.Attribute)):
            # x = <read> if T else <default>: the read happens exactly when T holds
            def arm(v_):
                a_ = ast.Assign(targets=[s.targets[0]], value=v_)
                ast.copy_location(a_, s)
                return a_
            syn = ast.If(test=s.value.test, body=[arm(s.value.body)], orelse=[arm(s.value.orelse)])
            ast.copy_location(syn, s)
            return self.stmt(syn)
        if isinstance(s, ast.Assign) and len(s.targets) == 1:
            t = s.targets[0]
            if isinstance(t, ast.Name):
                return self.assign(t.id, None, s.value, s)
            if isinstance(t, ast.Attribute) and isinstance(t.value, ast.Name):
                return self.assign(None, (t.value.id, t.attr), s.value, s)
            if isinstance(t, ast.Tuple) and all(isinstance(x, ast.Name) for x in t.elts):
                sc = eng.struct_call(s.value, fi, 'unpack', self.venv)
                if sc is not None:
                    return self.unpack_items(s.value, sc, [x.id for x in t.elts], s)
            if isinstance(t, (ast.Tuple, ast.List)) and not any(isinstance(x, ast.Starred) for x in t.elts):
                # (a, obj.b, c) = <multi-field unpack>   or   (a, obj.b, c) = fields   with   fields = <multi-field unpack>
                src = None
                if isinstance(s.value, ast.Name) and self.tuples.get(s.value.id) == len(t.elts):
                    src, out = s.value.id, []
                else:
                    sc = eng.struct_call(s.value, fi, 'unpack', self.venv) if isinstance(s.value, ast.Call) else None
                    if sc is not None:
                        self._tmp = getattr(self, '_tmp', 0) + 1
                        src = '_unpacked%d' % self._tmp
                        out = self.unpack_items(s.value, sc, ['%s[%d]' % (src, i) for i in range(len(t.elts))], s)
                if src is not None:
                    for i, x in enumerate(t.elts):
                        sub = ast.Subscript(value=ast.Name(id=src, ctx=ast.Load()), slice=ast.Constant(value=i), ctx=ast.Load())
                        a = ast.Assign(targets=[x], value=sub)
                        for n_ in ast.walk(a):
                            ast.copy_location(n_, s)
                        out.extend(self.stmt(a))
                    return out
            if _touches(s, self.stream):
                raise Undecided('unmodelled reader assignment: %s' % norm(s)[:80], s)
            return []
        if isinstance(s, ast.Expr) and isinstance(s.value, ast.Call):
            c = s.value
            if norm(c.func) == 'object.__setattr__' and len(c.args) == 3 and isinstance(c.args[1], ast.Constant):
                # object.__setattr__(self, 'vtx', tuple(vtx))
                names = [n.id for n in ast.walk(c.args[2]) if isinstance(n, ast.Name)]
                return [Item('bind', obj=norm(c.args[0]), field=c.args[1].value, vars=names, node=s)]
            if isinstance(c.func, ast.Attribute) and c.func.attr == 'seek' and isinstance(c.func.value, ast.Name) and c.func.value.id == self.stream:
                return [Item('rewind', to=norm(c.args[0]) if c.args else None, node=s)]
            if isinstance(c.func, ast.Attribute) and c.func.attr == 'append' and isinstance(c.func.value, ast.Name) and len(c.args) == 1:
                its = self.read_expr(c.args[0], s)
                if its is not None:
                    for i in its:
                        if i.get('var') == '$':
                            i.var = c.func.value.id + '[]'
                    return its
            if _touches(s, self.stream):
                raise Undecided('unmodelled reader call: %s' % norm(s)[:80], s)
            return []
        if isinstance(s, ast.If):
            touches = any(_touches(x, self.stream) for x in s.body + s.orelse)
            assigns_obj = any(isinstance(n, ast.Attribute) and isinstance(n.ctx, ast.Store) and isinstance(n.value, ast.Name) and n.value.id in self.objs
                              for x in s.body + s.orelse for n in ast.walk(x))
            has_ret = any(isinstance(n, ast.Return) for x in s.body + s.orelse for n in ast.walk(x))
            if not touches and not assigns_obj and not has_ret:
                return []
            then = self.block(s.body)
            orelse = self.block(s.orelse)
            return [cond_item(s.test, then, orelse, s, self.subst)]
        if isinstance(s, ast.For):
            if not any(_touches(x, self.stream) for x in s.body):
                return []
            it = s.iter
            cnt = _count_of_iter(it, self.subst, self.stream)
            is_range = isinstance(it, ast.Call) and norm(it.func) == 'range'
            if cnt is not None and (is_range or not any(isinstance(x, ast.Name) and isinstance(x.ctx, ast.Load) and x.id in {t.id for t in ast.walk(s.target) if isinstance(t, ast.Name)}
                                           for b_ in s.body for x in ast.walk(b_))):
                body = self.block(s.body)
                return [Item('loop', count=cnt, body=body, node=s)]
            raise Undecided('unmodelled reader loop', s)
        if isinstance(s, ast.While) and _touches(s, self.stream):
            # while len(acc) < n: acc.append(<read>)   ==   for _ in range(n): acc.append(<read>)   (acc starts empty)
            t = s.test
            if (isinstance(t, ast.Compare) and len(t.ops) == 1 and isinstance(t.ops[0], ast.Lt) and isinstance(t.left, ast.Call)
                    and norm(t.left.func) == 'len' and len(t.left.args) == 1 and isinstance(t.left.args[0], ast.Name)
                    and t.left.args[0].id in self.lists and not s.orelse and len(s.body) == 1):
                acc = t.left.args[0].id
                b = s.body[0]
                if (isinstance(b, ast.Expr) and isinstance(b.value, ast.Call) and isinstance(b.value.func, ast.Attribute)
                        and b.value.func.attr == 'append' and norm(b.value.func.value) == acc):
                    body = self.block(s.body)
                    return [Item('loop', count=norm(self.subst(t.comparators[0])), body=body, node=s)]
            raise Undecided('unmodelled reader loop', s)
        if isinstance(s, ast.Return):
            return self.ret(s)
        if isinstance(s, ast.Raise):
            return [Item('raise', node=s)]
        if isinstance(s, (ast.Pass,)):
            return []
        if isinstance(s, ast.Assert):
            if _touches(s, self.stream):
                raise Undecided('assert touching the stream', s)
            return []
        if _touches(s, self.stream):
            raise Undecided('unmodelled reader statement: %s' % norm(s)[:80], s)
        return []

    def assign(self, var, objattr, value, s):
        eng, fi = self.eng, self.fi
        # c = cls() / c = cls(args)
        if isinstance(value, ast.Call) and isinstance(value.func, ast.Name) and value.func.id == 'cls' and var:
            self.objs[var] = self.ctxcls
            return []
        if isinstance(value, ast.Call) and var:
            v = self.ff(value.func, fi)
            if isinstance(v, ClassRef) and eng.is_serializable(v.info) and not _touches(value, self.stream):
                self.objs[var] = v.info
                self.local_types[var] = v.info
                self.var_expr[var] = value
                return []
        if isinstance(value, ast.Call) and isinstance(value.func, ast.Attribute) and value.func.attr == 'tell' \
                and isinstance(value.func.value, ast.Name) and value.func.value.id == self.stream and var:
            return [Item('checkpoint', name=var, node=s)]
        if isinstance(value, ast.List) and not value.elts and var:
            self.lists.add(var)
            return []
        if var and isinstance(value, ast.Call):
            sc = eng.struct_call(value, fi, 'unpack', self.venv)
            if sc is not None and len(split_fmt(sc[1])) > 1:
                # fields = struct.unpack(<several fields>, ser_read(f, n)): the fields are fields[0], fields[1], ...
                n_ = len(split_fmt(sc[1]))
                self.tuples[var] = n_
                return self.unpack_items(value, sc, ['%s[%d]' % (var, i) for i in range(n_)], s)
        if isinstance(value, ast.Subscript) and isinstance(value.value, ast.Name) and (value.value.id in self.tuples or value.value.id.startswith('_unpacked')) \
                and isinstance(value.slice, ast.Constant) and var:
            # a = fields[k]: a second name for that field
            return [Item('alias', var=var, of=norm(value), node=s)]
        its = self.read_expr(value, s)
        if its is None:
            if _touches(value, self.stream):
                raise Undecided('unmodelled read expression: %s' % norm(value)[:80], s)
            if objattr and objattr[0] in self.objs:
                return [Item('set', field=objattr[1], value=norm(value), node=s)]
            if var:
                self.var_expr[var] = value
            return []
        for i in its:
            if i.get('var') == '$':
                if var:
                    i.var = var
                else:
                    i.var = None
                    i.field = objattr[1]
                    i.obj = objattr[0]
        if var and len(its) == 1 and its[0].kind == 'sub' and its[0].get('super'):
            self.objs[var] = self.ctxcls
        return its

    def unpack_items(self, call, sc, names, s):
        eng, fi = self.eng, self.fi
        kind, fmt = sc
        arg = call.args[1] if kind == 'mod' else call.args[0]
        n = eng.is_ser_read(arg, fi, self.stream)
        if n is None:
            raise Undecided('unpack of something that is not ser_read', s)
        codes = split_fmt(fmt)
        if len(codes) != len(names):
            raise Undecided('unpack arity', s)
        nv = self.f(n)
        total = sum(fmt_info(c)[0] for c in codes)
        return [Item('int', fmt=c, var=v, node=s, read_n=nv, total=total) for c, v in zip(codes, names)]

    def read_expr(self, e, s):
        """items for a stream-reading expression; the value lands in var '$' (patched by the caller). None if not a read."""
        eng, fi = self.eng, self.fi
        if not _touches(e, self.stream):
            return None
        # struct.unpack(fmt, ser_read(f, n))[0]
        if isinstance(e, ast.Subscript) and isinstance(e.value, ast.Call):
            sc = eng.struct_call(e.value, fi, 'unpack', self.venv)
            if sc is not None:
                idx = self.ff(e.slice, fi)
                kind, fmt = sc
                arg = e.value.args[1] if kind == 'mod' else e.value.args[0]
                n = eng.is_ser_read(arg, fi, self.stream)
                if n is None:
                    raise Undecided('unpack of something that is not ser_read', s)
                codes = split_fmt(fmt)
                if idx != 0 or len(codes) != 1:
                    raise Undecided('unpack()[k] with k != 0 or multi-field format', s)
                nv = self.f(n)
                return [Item('int', fmt=codes[0], var='$', node=e, read_n=nv, total=fmt_info(codes[0])[0])]
            n = eng.is_ser_read(e.value, fi, self.stream)
            if n is not None:
                nv = self.f(n)
                idx = self.ff(e.slice, fi)
                if nv == 1 and idx == 0:
                    return [Item('int', fmt='B', var='$', node=e, read_n=1, total=1)]
                raise Undecided('indexing a ser_read result', s)
        # int.from_bytes(ser_read(f, n), 'little' | 'big'[, signed=...])
        if isinstance(e, ast.Call) and norm(e.func) == 'int.from_bytes' and 1 <= len(e.args) <= 2 and isinstance(e.args[0], ast.Call):
            n = eng.is_ser_read(e.args[0], fi, self.stream)
            if n is not None:
                nv = self.f(n)
                order = self.f(e.args[1]) if len(e.args) == 2 else None
                signed = False
                for kw in e.keywords:
                    if kw.arg == 'byteorder':
                        order = self.f(kw.value)
                    elif kw.arg == 'signed':
                        signed = self.f(kw.value)
                code = {1: 'B', 2: 'H', 4: 'I', 8: 'Q'}.get(nv)
                if code is None or order not in ('little', 'big') or signed not in (True, False):
                    raise Undecided('int.from_bytes of %r bytes, order %r, signed %r' % (nv, order, signed), s)
                code = code.lower() if signed else code
                fmt = code if nv == 1 and not signed else ('<' if order == 'little' else '>') + code
                return [Item('int', fmt=fmt, var='$', node=e, read_n=nv, total=nv)]
        if isinstance(e, (ast.ListComp, ast.GeneratorExp)) and len(e.generators) == 1 and not e.generators[0].ifs:
            it = e.generators[0].iter
            cnt = _count_of_iter(it, self.subst, self.stream)
            if cnt is not None:
                inner = self.read_expr(e.elt, s)
                if inner is None:
                    raise Undecided('comprehension without a read', s)
                for i in inner:
                    if i.get('var') == '$':
                        i.var = '$[]'
                return [Item('loop', count=cnt, body=inner, var='$', node=e)]
            raise Undecided('unmodelled comprehension read', s)
        if isinstance(e, ast.Call):
            n = eng.is_ser_read(e, fi, self.stream)
            if n is not None and _touches(n, self.stream):
                # ser_read(f, <length read from the stream>): the length is read first, then that many bytes
                inner = self.read_expr(n, s)
                if inner is not None:
                    self._tmp = getattr(self, '_tmp', 0) + 1
                    ln = '_length%d' % self._tmp
                    for i in inner:
                        if i.get('var') == '$':
                            i.var = ln
                    return inner + [Item('raw', n=None, nexpr=ln, var='$', node=e)]
            if n is not None:
                nv = self.f(n)
                if isinstance(nv, int):
                    return [Item('raw', n=nv, var='$', node=e)]
                return [Item('raw', n=None, nexpr=norm(self.subst(n)), var='$', node=e)]
            fn = e.func
            # transparent wrappers: CScript(<read>), bytearray(<read>), tuple(<read>)
            if len(e.args) == 1 and not e.keywords and _touches(e.args[0], self.stream) and not isinstance(e.args[0], ast.Name):
                fv = self.ff(fn, fi)
                is_wrapper = isinstance(fv, ClassRef) or (isinstance(fv, ExternalRef) and fv.name in ('bytearray', 'bytes', 'tuple', 'list'))
                if is_wrapper:
                    if isinstance(e.args[0], ast.GeneratorExp):
                        g = e.args[0]
                        if len(g.generators) == 1 and not g.generators[0].ifs:
                            it = g.generators[0].iter
                            cnt = _count_of_iter(it, self.subst, self.stream)
                            if cnt is not None:
                                inner = self.read_expr(g.elt, s)
                                if inner is None:
                                    raise Undecided('generator without a read', s)
                                for i in inner:
                                    if i.get('var') == '$':
                                        i.var = '$[]'
                                return [Item('loop', count=cnt, body=inner, var='$', node=e)]
                        raise Undecided('unmodelled generator read', s)
                    inner = self.read_expr(e.args[0], s)
                    if inner is not None:
                        for i in inner:
                            if i.get('var') == '$':
                                i.wrapper = norm(fn)
                        return inner
            if isinstance(fn, ast.Attribute):
                meth = fn.attr
                recv = fn.value
                sidx = None
                for i, a in enumerate(e.args):
                    if isinstance(a, ast.Name) and a.id == self.stream:
                        sidx = i
                if sidx is None:
                    raise Undecided('stream used inside call arguments: %s' % norm(e)[:80], s)
                # super(C, cls).stream_deserialize(f)
                if isinstance(recv, ast.Call) and norm(recv.func) == 'super':
                    after = fi.cls
                    if recv.args:
                        v = self.ff(recv.args[0], fi)
                        if isinstance(v, ClassRef):
                            after = v.info
                    tgt = eng.repo.lookup_method(self.ctxcls, meth, after=after)
                    if tgt is None:
                        raise Undecided('super().%s does not resolve' % meth, s)
                    sub = _RState(eng, tgt, tgt.params[1 + sidx], {}, self.ctxcls, self.depth + 1)
                    inner = sub.block(tgt.node.body)
                    return [Item('inline', items=inner, var='$', node=e, super=True, cls=tgt.cls.name)]
                rv = self.f(recv)
                if isinstance(rv, ClassRef):
                    ci = rv.info
                    tgt = eng.repo.lookup_method(ci, meth)
                    if tgt is None:
                        raise Undecided('%s.%s does not resolve' % (ci.name, meth), s)
                    if ci is eng.varint and meth in ('stream_deserialize', 'deserialize'):
                        return [Item('varint', var='$', node=e)]
                    if eng.is_serializer(ci):
                        if meth == 'deserialize':
                            tgt = eng.repo.lookup_method(ci, 'stream_deserialize')
                        params = tgt.params[1:]
                        env = {}
                        stream = None
                        for i, a in enumerate(e.args):
                            if i == sidx:
                                stream = params[i]
                            else:
                                env[params[i]] = self.subst(a)
                        for kw in e.keywords:
                            env[kw.arg] = self.subst(kw.value)
                        venv = {}
                        for k_, a_ in env.items():
                            v_ = self.f(self._unsubst(a_))
                            if v_ is not UNKNOWN:
                                venv[k_] = v_
                        for p, d in tgt.defaults().items():
                            if p not in env:
                                env[p] = d
                                dv = eng.fold(d, tgt)
                                if dv is not UNKNOWN:
                                    venv[p] = dv
                        sub = _RState(eng, tgt, stream, env, ci, self.depth + 1)
                        sub.venv = venv
                        inner = sub.block(tgt.node.body)
                        return [Item('inline', items=inner, var='$', node=e, cls=ci.name)]
                    if eng.is_serializable(ci):
                        args = self.call_args(e, tgt, sidx)
                        return [Item('sub', cls=ci.name, var='$', args=args, node=e)]
                    raise Undecided('unmodelled class receiver %s.%s' % (ci.name, meth), s)
                # instance receiver: wit.stream_deserialize(f)  (count carried by the receiver object)
                if isinstance(recv, ast.Name) and recv.id in self.local_types:
                    ci = self.local_types[recv.id]
                    tgt = eng.repo.lookup_method(ci, meth)
                    args = self.call_args(e, tgt, sidx) if tgt else {}
                    return [Item('sub', cls=ci.name, var='$', args=args, node=e, via_instance=norm(self.var_expr.get(recv.id)))]
                if isinstance(recv, ast.Name) and recv.id in fi.params:
                    # class passed as a parameter (VectorSerializer's inner_cls), analysed stand-alone
                    return [Item('sub', cls=None, var='$', args={}, node=e, symbolic=recv.id)]
                if isinstance(recv, ast.Call) and not _touches(recv, self.stream):
                    # Cls(<placeholder>).stream_deserialize(f): a freshly built instance as the receiver
                    cv = self.ff(recv.func, fi)
                    if isinstance(cv, ClassRef) and eng.is_serializable(cv.info):
                        tgt = eng.repo.lookup_method(cv.info, meth)
                        args = self.call_args(e, tgt, sidx) if tgt else {}
                        return [Item('sub', cls=cv.info.name, var='$', args=args, node=e, via_instance=norm(recv))]
                raise Undecided('unresolved reader receiver: %s' % norm(e)[:80], s)
        raise Undecided('unmodelled read expression: %s' % norm(e)[:80], s)

    def call_args(self, call, tgt, sidx):
        params = tgt.params[1:] if tgt.kind in ('method', 'classmethod') else tgt.params
        out = {}
        for i, a in enumerate(call.args):
            if i == sidx:
                continue
            if i < len(params):
                v = self.f(a)
                out[params[i]] = repr(v) if v is not UNKNOWN else norm(self.subst(a))
        for kw in call.keywords:
            if kw.arg is None:
                out['**'] = norm(self.subst(kw.value))
            else:
                v = self.f(kw.value)
                out[kw.arg] = repr(v) if v is not UNKNOWN else norm(self.subst(kw.value))
        return out

    def ret(self, s):
        eng, fi = self.eng, self.fi
        v = s.value
        if v is None:
            return [Item('return', node=s, mapping={}, how='none')]
        # return cls(a, b, c) / return Cls(a, b)
        if isinstance(v, ast.Call) and not _touches(v, self.stream):
            target = None
            if isinstance(v.func, ast.Name) and v.func.id == 'cls':
                target = self.ctxcls
            else:
                fv = self.ff(v.func, fi)
                if isinstance(fv, ClassRef):
                    target = fv.info
            if target is not None:
                init, slots = eng.param_slots(target)
                mapping = {}
                if init is not None:
                    params = init.params[1:]
                    for i, a in enumerate(v.args):
                        if isinstance(a, ast.Name) and i < len(params):
                            mapping[a.id] = slots.get(params[i], '?' + params[i])
                    for kw in v.keywords:
                        if isinstance(kw.value, ast.Name) and kw.arg:
                            mapping[kw.value.id] = slots.get(kw.arg, '?' + kw.arg)
                return [Item('return', node=s, mapping=mapping, how='ctor', cls=target.name, nargs=len(v.args) + len(v.keywords))]
        if isinstance(v, ast.Name):
            if v.id in self.objs:
                return [Item('return', node=s, mapping={}, how='obj', obj=v.id)]
            return [Item('return', node=s, mapping={v.id: '$ret'}, how='var')]
        its = self.read_expr(v, s)
        if its is not None:
            for i in its:
                if i.get('var') == '$':
                    i.var = '$ret'
            return its + [Item('return', node=s, mapping={}, how='value')]
        return [Item('return', node=s, mapping={}, how='other', text=norm(v))]


# ---------------------------------------------------------------------------------------------
def normalise(items):
    """Canonicalise: flatten inlines/buffers, recognise varbytes / vector, resolve reader vars to fields."""
    items = _flatten(items)
    items = _merge_guards(items)
    items = _recognise(items)
    return items


def canon_test(t):
    """`True if c else False` -> c ; `bool(c)` -> c ; `not not c` -> c   (spellings of one guard)"""
    while True:
        if isinstance(t, ast.IfExp) and isinstance(t.body, ast.Constant) and isinstance(t.orelse, ast.Constant) \
                and t.body.value is True and t.orelse.value is False:
            t = t.test
        elif isinstance(t, ast.IfExp) and isinstance(t.body, ast.Constant) and isinstance(t.orelse, ast.Constant) \
                and t.body.value is False and t.orelse.value is True:
            t = ast.UnaryOp(op=ast.Not(), operand=t.test)
        elif isinstance(t, ast.Call) and isinstance(t.func, ast.Name) and t.func.id == 'bool' and len(t.args) == 1 and not t.keywords:
            t = t.args[0]
        elif isinstance(t, ast.UnaryOp) and isinstance(t.op, ast.Not) and isinstance(t.operand, ast.UnaryOp) and isinstance(t.operand.op, ast.Not):
            t = t.operand.operand
        else:
            return t


def cond_item(test, then, orelse, node, subst):
    """a conditional item with its guard in the linear normal form; `x < N` guards are stored as their complement
    `x > N-1` with the arms swapped, so that the two spellings of one version threshold give one item"""
    t = canon_test(test)
    try:
        from .rules import canon_text
        g = canon_text(norm(subst(t)))
    except Exception:
        g = norm(subst(t))
    import re as _r
    m = _r.match(r'^(.+) < (-?\d+)$', g)
    if m and ' or ' not in g and ' and ' not in g:
        g = '%s > %d' % (m.group(1), int(m.group(2)) - 1)
        then, orelse = orelse, then
        t = ast.UnaryOp(op=ast.Not(), operand=t)
    return Item('cond', guard=g, then=then, orelse=orelse, node=node, test=t)


def _gkey(c):
    """(one of the two canonical texts `g` / `not g` chosen as the key, polarity of this conditional w.r.t. the key)"""
    g = c.guard
    try:
        from .rules import canon_text
        pos = canon_text(g)
        neg = canon_text(g, negate=True)
    except Exception:
        return (g[4:], False) if g.startswith('not ') else (g, True)
    # prefer the conjunction / the form without a leading `not` as the key
    def rank(t):
        return (t.startswith('not '), ' or ' in t, t)
    return (pos, True) if rank(pos) <= rank(neg) else (neg, False)


def _copy_item(i):
    new = Item.__new__(Item)
    new.__dict__.update(i.__dict__)
    for f in ('then', 'orelse', 'body', 'elem', 'items'):
        v = i.__dict__.get(f)
        if isinstance(v, list):
            new.__dict__[f] = [_copy_item(x) for x in v]
    return new


def _resolve_guard(seq, base, value):
    out = []
    for it in seq:
        if it.kind == 'cond' and _gkey(it)[0] == base:
            taken = it.then if _gkey(it)[1] == value else it.orelse
            out.extend(_resolve_guard([_copy_item(x) for x in taken], base, value))
        else:
            out.append(_copy_item(it))
        if out and out[-1].kind in ('return', 'raise'):
            break
    return out


def _merge_guards(items):
    """Several conditionals on one guard in a row (`if g: A1` ... `if g: A2` ...) are one conditional over the whole
    tail: [X, cond(g: A1|B1), Y, cond(g: A2|B2), Z] == [X, cond(g: A1 Y A2 Z | B1 Y B2 Z)].  Sound when nothing in
    between assigns a name the guard reads (checked on the items' variables)."""
    items = list(items)
    for c in items:
        if c.kind == 'cond':
            c.then = _merge_guards(c.then)
            c.orelse = _merge_guards(c.orelse)
        elif c.kind in ('loop', 'vector'):
            for f in ('body', 'elem'):
                if isinstance(c.get(f), list):
                    setattr(c, f, _merge_guards(c.get(f)))
    for i, c in enumerate(items):
        if c.kind != 'cond':
            continue
        base, pol = _gkey(c)
        later = [j for j in range(i + 1, len(items)) if items[j].kind == 'cond' and _gkey(items[j])[0] == base]
        if not later:
            continue
        names = set(_re_names(base))
        between = items[i + 1:later[-1]]
        if any((x.get('var') or '').rstrip('[]') in names for x in between):
            continue
        tail = items[i + 1:]
        new = Item('cond', guard=c.guard, then=list(c.then) + _resolve_guard(tail, base, pol),
                   orelse=list(c.orelse) + _resolve_guard(tail, base, not pol), node=c.node, test=c.get('test'))
        if not pol:
            # positive polarity for the merged conditional
            new.guard = base
            new.then, new.orelse = new.orelse, new.then
            try:
                new.test = ast.parse(base, mode='eval').body
            except SyntaxError:
                pass
        for br in ('then', 'orelse'):
            seq = getattr(new, br)
            for k, x in enumerate(seq):
                if x.kind in ('return', 'raise'):
                    setattr(new, br, seq[:k + 1])
                    break
        return items[:i] + [new]
    return items


def _re_names(text):
    import re
    return re.findall(r'[A-Za-z_][A-Za-z_0-9]*', text)


def _flatten(items):
    out = []
    for i in items:
        if i.kind == 'inline':
            inner = _flatten(i.items)
            inner = _recognise(inner)
            # value returned by the inlined helper lands in i.var
            rets = [x for x in inner if x.kind == 'return']
            body = [x for x in inner if x.kind != 'return']
            retvar = None
            for r in rets:
                for k, v in r.mapping.items():
                    if v == '$ret':
                        retvar = k
            for x in body:
                xv = x.get('var')
                if xv is not None and (xv == '$ret' or (retvar is not None and (xv == retvar or xv == retvar + '[]'))):
                    x.var = i.var
                    if i.field is not None:
                        x.field = i.field
                        x.obj = i.get('obj')
                    if i.get('wrapper'):
                        x.wrapper = i.wrapper
                elif x.kind in ('varint',) and xv is not None:
                    x.var = '%s@%s' % (xv, id(i))
            if i.get('super'):
                out.append(Item('superobj', var=i.var, node=i.node, cls=i.cls))
                imap = {}
                for r in rets:
                    if r.get('how') == 'ctor':
                        imap.update(r.mapping)
                for x in body:
                    xv = x.get('var')
                    if xv in imap and x.field is None:
                        x.field = imap[xv]
            out.extend(body)
        elif i.kind == 'buffer':
            out.extend(_flatten(i.items))
        elif i.kind == 'cond':
            i.then = _flatten(i.then)
            i.orelse = _flatten(i.orelse)
            out.append(i)
        elif i.kind == 'loop':
            i.body = _flatten(i.body)
            out.append(i)
        else:
            out.append(i)
    return out


def _recognise(items):
    out = []
    for i in items:
        if i.kind == 'cond' and not i.get('_rec'):
            i.then = _recognise(i.then)
            i.orelse = _recognise(i.orelse)
            i._rec = True
        if i.kind == 'loop' and not i.get('_rec'):
            i.body = _recognise(i.body)
            i._rec = True
    k = 0
    while k < len(items):
        i = items[k]
        nxt = items[k + 1] if k + 1 < len(items) else None
        # writer: varint(len(X)) ; raw(X)  -> varbytes(X)
        if i.kind == 'varint' and nxt is not None and i.get('expr') is not None:
            ex = i.expr
            if nxt.kind == 'raw' and nxt.get('expr') is not None and ex == 'len(%s)' % nxt.expr:
                out.append(Item('varbytes', field=nxt.field, node=i.node))
                k += 2
                continue
            if nxt.kind == 'loop' and nxt.get('over_expr') is not None and ex == 'len(%s)' % nxt.over_expr:
                out.append(Item('vector', field=nxt.field, elem=nxt.body, node=i.node, loop=nxt))
                k += 2
                continue
        # writer with a local: l = len(s); varint(l); raw(s)  (VarStringSerializer, intVectorSerializer)
        # handled by substituting in caller: expr 'l' -> cannot know; accept varint(var) + raw as varbytes when the
        # local was assigned len(X) - resolved in _WState via bufs? keep simple: see _fix_len_locals
        # reader: varint->v ; raw(n=v) -> varbytes ; varint->v ; loop(count=v) -> vector
        if i.kind == 'varint' and nxt is not None and i.get('var') is not None and i.get('expr') is None:
            v = i.var.split('@')[0]
            if nxt.kind == 'raw' and nxt.get('nexpr') == v:
                it = Item('varbytes', var=nxt.get('var'), node=i.node)
                if nxt.get('wrapper'):
                    it.wrapper = nxt.wrapper
                out.append(it)
                k += 2
                continue
            if nxt.kind == 'loop' and nxt.get('count') == v:
                out.append(Item('vector', var=nxt.get('var') or _loopvar(nxt), elem=nxt.body, node=i.node, loop=nxt))
                k += 2
                continue
        out.append(i)
        k += 1
    return out


def _loopvar(loop):
    for b in loop.body:
        v = b.get('var')
        if v and v.endswith('[]'):
            return v[:-2]
    return None


def _fexpr(item):
    n = item.node
    return _fexpr_s(item.field)


def _fexpr_s(field):
    # field 'a.b' came from self.a.b ; other expressions are kept verbatim
    if field and all(p.isidentifier() for p in field.split('.')) and '(' not in field:
        return 'self.' + field if not field.startswith('self.') else field
    return field


def _elem_fields(b):
    """fields of vector/loop elements are positional, not named"""
    b.field = None
    if b.kind == 'cond':
        for x in b.then + b.orelse:
            _elem_fields(x)


def finalise_writer(items):
    out = []
    for i in items:
        if i.kind == 'cond':
            i.then = finalise_writer(i.then)
            i.orelse = finalise_writer(i.orelse)
            if not i.then and not i.orelse:
                continue
        if i.kind in ('vector', 'loop'):
            for b in (i.get('elem') or i.get('body') or []):
                _elem_fields(b)
        if i.kind == 'const' and i.value == b'':
            continue
        out.append(i)
    return out


def finalise_reader(items):
    """Resolve reader `var`s to fields using return/bind items. -> (items without bookkeeping, problems)"""
    problems = []

    def go(seq, inherited):
        mapping = dict(inherited)
        # collect mapping from return / bind items at this level (and nested conds handled recursively)
        for i in seq:
            if i.kind == 'return':
                mapping.update(i.mapping)
            elif i.kind == 'bind':
                for v in i.vars:
                    mapping.setdefault(v, i.field)
            elif i.kind == 'set' and _re.match(r'^\w+(\[\d+\])?$', i.value):
                mapping.setdefault(i.value, i.field)
        for i in seq:
            if i.kind == 'alias' and i.var in mapping:
                mapping.setdefault(i.of, mapping[i.var])
        out = []
        for i in seq:
            if i.kind in ('return', 'bind', 'superobj', 'set', 'alias'):
                continue
            if i.kind == 'cond':
                i.then = go(i.then, mapping)
                i.orelse = go(i.orelse, mapping)
                if i.then or i.orelse:
                    out.append(i)
                continue
            if i.kind in ('vector', 'loop'):
                for b in (i.get('elem') or i.get('body') or []):
                    _elem_fields(b)
            v = i.get('var')
            if i.field is None and v is not None:
                base = v[:-2] if v.endswith('[]') else v
                if base in mapping:
                    i.field = mapping[base]
                elif v == '$ret':
                    i.field = '$ret'
                else:
                    i.field = '~' + base
            out.append(i)
        return out
    return go(items, {}), problems


# ---------------------------------------------------------------------------------------------
# comparison of two layouts (writer vs reader, or either vs the protocol table)
import re as _re


class Diff(object):
    def __init__(self, what, w=None, r=None, msg=''):
        self.what = what
        self.w = w
        self.r = r
        self.msg = msg

    def __repr__(self):
        return 'Diff(%s: %s)' % (self.what, self.msg)


def _strip_recv(text):
    return _re.sub(r'\b(self|c|cls)\.', '', text or '')


def fixed_width(items, width_of=None):
    """total width of a sequence of fixed-size items, None if any is variable"""
    tot = 0
    for i in items:
        if i.kind == 'int':
            tot += i.get('width') or fmt_info(i.fmt)[0]
        elif i.kind == 'raw':
            n = i.get('n')
            if n is None and width_of is not None:
                n = width_of(i)
            if n is None:
                return None
            tot += n
        elif i.kind == 'const':
            tot += len(i.value)
        else:
            return None
    return tot


class Comparator(object):
    def __init__(self, width_of=None, left='writer', right='reader'):
        self.diffs = []
        self.notes = []
        self.guard_pairs = []
        self.width_of = width_of
        self.left = left
        self.right = right
        self.compared = 0

    def seq(self, W, R):
        i = j = 0
        while i < len(W) or j < len(R):
            w = W[i] if i < len(W) else None
            r = R[j] if j < len(R) else None
            if r is not None and r.kind in ('checkpoint', 'raise'):
                j += 1
                continue
            if w is not None and w.kind in ('raise',):
                i += 1
                continue
            if w is None:
                self.diffs.append(Diff('only-%s' % self.right, None, r, '%s has an extra %s' % (self.right, describe(r))))
                j += 1
                continue
            if r is None:
                self.diffs.append(Diff('only-%s' % self.left, w, None, '%s has an extra %s' % (self.left, describe(w))))
                i += 1
                continue
            if w.kind == 'cond' and r.kind == 'cond':
                self.guard(w, r)
                self.seq(list(w.then) + W[i + 1:], list(r.then) + R[j + 1:])
                self.seq(list(w.orelse) + W[i + 1:], list(r.orelse) + R[j + 1:])
                return
            if w.kind == 'cond' or r.kind == 'cond':
                c, other, seq, k = (w, r, R, j) if w.kind == 'cond' else (r, w, W, i)
                w1 = fixed_width(c.then, self.width_of)
                w2 = fixed_width(c.orelse, self.width_of)
                if w1 is not None and w1 == w2 and w1 > 0:
                    tot = 0
                    kk = k
                    while kk < len(seq) and tot < w1:
                        x = fixed_width([seq[kk]], self.width_of)
                        if x is None:
                            break
                        tot += x
                        kk += 1
                    if tot == w1:
                        self.notes.append('conditional region of %d bytes (%s) matched by width against %d fixed item(s)' % (w1, c.guard, kk - k))
                        self.compared += 1
                        if w.kind == 'cond':
                            i += 1
                            j = kk
                        else:
                            j += 1
                            i = kk
                        continue
                self.diffs.append(Diff('conditional-vs-unconditional', w, r,
                                       '%s %s vs %s %s' % (self.left, describe(w), self.right, describe(r))))
                return
            self.item(w, r)
            i += 1
            j += 1

    def guard(self, w, r):
        gw, gr = _strip_recv(w.guard), _strip_recv(r.guard)
        self.guard_pairs.append((w, r))
        if gw == gr:
            return
        if r.get('peek') or w.get('peek') or w.get('spec') or r.get('spec'):
            return  # judged by the property's own guard-classification rule
        self.diffs.append(Diff('guard', w, r, 'conditions differ: %s: %s / %s: %s' % (self.left, w.guard, self.right, r.guard)))

    def item(self, w, r):
        self.compared += 1
        if w.kind != r.kind:
            # varbytes written as raw etc.
            self.diffs.append(Diff('kind', w, r, '%s %s vs %s %s' % (self.left, describe(w), self.right, describe(r))))
            return
        k = w.kind
        if k == 'int':
            if w.get('spec') or r.get('spec'):
                s_, c_ = (w, r) if w.get('spec') else (r, w)
                width, order, rng = fmt_info(c_.fmt)
                ok = width == s_.width and (order == s_.endian or (s_.width == 1 and order in ('', '<', '>', '=')) )
                if ok and s_.get('lo') is not None:
                    if rng is None:
                        ok = c_.fmt[-1] == 'c' and s_.width == 1
                    else:
                        ok = rng[0] <= s_.lo and rng[1] >= s_.hi
                if not ok:
                    self.diffs.append(Diff('format-vs-spec', w, r, 'format %r does not carry the prescribed %d-byte %s-endian field %s with range [%s, %s]'
                                           % (c_.fmt, s_.width, {'<': 'little', '>': 'big'}.get(s_.endian, s_.endian), s_.field, s_.get('lo'), s_.get('hi'))))
            else:
                fw, fr = fmt_info(w.fmt), fmt_info(r.fmt)
                if w.fmt[-1] != r.fmt[-1] or (fw[0] > 1 and fw[1] != fr[1]):
                    self.diffs.append(Diff('format', w, r, '%s format %r vs %s format %r (field %s)' % (self.left, w.fmt, self.right, r.fmt, w.field or r.field)))
        elif k == 'raw':
            nw, nr = w.get('n'), r.get('n')
            if nw is None and self.width_of:
                nw = self.width_of(w)
            if nw is not None and nr is not None and nw != nr:
                self.diffs.append(Diff('width', w, r, 'raw field of %s bytes vs %s bytes' % (nw, nr)))
            if nw is None or nr is None:
                self.notes.append('raw field %s: length visible on one side only' % (w.field or r.field))
        elif k == 'const':
            if w.value != r.value:
                self.diffs.append(Diff('const', w, r, 'constant %r vs %r' % (w.value, r.value)))
        elif k == 'sub':
            if w.cls and r.cls and w.cls != r.cls:
                self.diffs.append(Diff('class', w, r, 'nested structure %s vs %s' % (w.cls, r.cls)))
            aw = {a: b for a, b in (w.get('args') or {}).items() if not (a == '**' and b in ('{}', 'inner_params'))}
            ar = {a: b for a, b in (r.get('args') or {}).items() if not (a == '**' and b in ('{}', 'inner_params'))}
            if not (w.get('spec') or r.get('spec')) and aw != ar:
                if not (set(aw) | set(ar)) <= {'**'}:
                    self.diffs.append(Diff('args', w, r, 'nested %s called with %r vs %r' % (w.cls or r.cls, aw, ar)))
                else:
                    self.notes.append('nested %s: keyword pass-through %r vs %r' % (w.cls or r.cls, aw, ar))
        elif k in ('vector', 'loop'):
            ew = w.get('elem') if k == 'vector' else w.get('body')
            er = r.get('elem') if k == 'vector' else r.get('body')
            if k == 'loop' and not (w.get('spec') or r.get('spec')):
                cw, cr = _strip_recv(w.get('count') or ''), _strip_recv(r.get('count') or '')
                if cw != cr:
                    self.diffs.append(Diff('count', w, r, 'loop count %s vs %s' % (w.get('count'), r.get('count'))))
            self.seq(list(ew), list(er))
        elif k == 'derived':
            pass
        # field names
        fw, fr = w.field, r.field
        if fw is not None and fr is not None and not fw.startswith(('~', '$')) and not fr.startswith(('~', '$')):
            if fw.split('.')[-1] != fr.split('.')[-1] and k not in ('const',):
                self.diffs.append(Diff('field', w, r, 'position holds field %r on the %s side and %r on the %s side' % (fw, self.left, fr, self.right)))


def describe(i):
    if i is None:
        return 'nothing'
    k = i.kind
    if k == 'int':
        return 'int %s %s' % (i.get('fmt') or '%d-byte' % i.get('width', 0), i.field or '')
    if k == 'raw':
        return 'raw[%s] %s' % (i.get('n'), i.field or '')
    if k == 'const':
        return 'const %r' % (i.value,)
    if k == 'cond':
        return 'conditional(%s)' % i.guard
    if k in ('vector', 'loop', 'varbytes', 'varint'):
        return '%s %s' % (k, i.field or '')
    if k == 'sub':
        return 'nested %s %s' % (i.cls, i.field or '')
    return k


def canon_reader(items, notes):
    """reader-side canonicalisation: marker peek pattern, version gates"""
    out = []
    k = 0
    while k < len(items):
        i = items[k]
        # checkpoint P; int B a; int B b; cond(a == c1 and b == c2){T} else {rewind P; E}
        if (i.kind == 'checkpoint' and k + 3 < len(items) and items[k + 1].kind == 'int' and items[k + 2].kind == 'int'
                and items[k + 3].kind == 'cond'):
            a, b, c = items[k + 1], items[k + 2], items[k + 3]
            m = _re.match(r'^(\w+) == (\d+) and (\w+) == (\d+)$', c.guard)
            if (m and fmt_info(a.fmt)[0] == 1 and fmt_info(b.fmt)[0] == 1 and {m.group(1), m.group(3)} == {a.var, b.var}
                    and c.orelse and c.orelse[0].kind == 'rewind' and c.orelse[0].to == i.name):
                vals = {m.group(1): int(m.group(2)), m.group(3): int(m.group(4))}
                nc = Item('cond', guard='peek(%02x,%02x)' % (vals[a.var], vals[b.var]), node=c.node, peek=True, test=c.get('test'),
                          then=[Item('const', value=bytes([vals[a.var]]), node=a.node), Item('const', value=bytes([vals[b.var]]), node=b.node)] + canon_reader(c.then, notes),
                          orelse=canon_reader(c.orelse[1:], notes), checkpoint=i, rewind=c.orelse[0])
                out.append(nc)
                k += 4
                continue
        if i.kind == 'cond':
            g = _strip_recv(i.guard)
            m = _re.match(r'^nVersion >= (\d+)$', g) or _re.match(r'^nVersion > (\d+)$', g)
            if m:
                notes.append('version gate `%s`: compared under "the version carries the field"' % i.guard)
                thr = int(m.group(1)) + (1 if ' > ' in g else 0)
                notes.append(('gate', thr, [x.get('field') or x.get('var') for x in i.then if x.kind not in ('cond',)], i))
                out.extend(canon_reader(i.then, notes))
                k += 1
                continue
            i.then = canon_reader(i.then, notes)
            i.orelse = canon_reader(i.orelse, notes)
        out.append(i)
        k += 1
    return out
