"""TABLE engine: finite-domain decision tables (DESIGN.md 3.2).

Guards are evaluated by the checker's own constant folder for every element of a finite domain; conditions that do
not fold (atoms such as `flag in flags` or `len(stack) < n`) fork the path and are recorded as assumptions.
No library code is executed.
"""
import ast

from .model import UNKNOWN, norm
from . import flow


class Path(object):
    __slots__ = ('events', 'assume', 'end', 'endnode', 'env')

    def __init__(self, env):
        self.events = []
        self.assume = {}
        self.end = None
        self.endnode = None
        self.env = env

    def fork(self):
        p = Path(dict(self.env))
        p.events = list(self.events)
        p.assume = dict(self.assume)
        return p

    def stmts(self):
        return [e[1] for e in self.events if e[0] == 'stmt']

    def arms(self):
        return [(e[1], e[2]) for e in self.events if e[0] == 'if']


# callables whose result is an object, never None (constructors of bytes-like values, serialisers, hashes)
NEVER_NONE = {'serialize', 'Hash', 'Hash160', 'bytes', 'bytearray', 'pack', 'join', 'digest', 'getvalue', 'hexlify', 'unhexlify', 'CScript', 'tuple', 'list', 'dict', 'set',
              'str', 'int', 'len', 'to_bytes', 'GetHash', 'GetTxid', 'get_header', 'encode', 'decode', 'format', 'repr'}


class Tracer(object):
    """Enumerates the paths through a statement list under a (partially) concrete environment."""

    def __init__(self, repo, module, cls=None, noreturn=(), max_paths=4096, atom=None, opaque_calls=True):
        self.repo = repo
        self.module = module
        self.cls = cls
        self.noreturn = tuple(noreturn)
        self.max_paths = max_paths
        self.atom = atom  # optional hook: (expr, path) -> True/False/None for non-folding atoms
        self.count = 0
        self.pinned = set()  # names whose enumerated value survives assignments inside the traced code

    # -- evaluation
    def value(self, e, path):
        return self.repo.fold(e, self.module, cls=self.cls, env=path.env)

    def tri(self, e, path):
        """True / False / None"""
        if isinstance(e, ast.BoolOp):
            vals = [self.tri(v, path) for v in e.values]
            if isinstance(e.op, ast.And):
                if any(v is False for v in vals):
                    return False
                if all(v is True for v in vals):
                    return True
                return None
            if any(v is True for v in vals):
                return True
            if all(v is False for v in vals):
                return False
            return None
        if isinstance(e, ast.UnaryOp) and isinstance(e.op, ast.Not):
            v = self.tri(e.operand, path)
            return None if v is None else (not v)
        v = self.value(e, path)
        if v is not UNKNOWN:
            try:
                return bool(v)
            except Exception:
                return None
        # `x is None` / `x is not None` for a local last assigned a value that is certainly an object
        if isinstance(e, ast.Compare) and len(e.ops) == 1 and isinstance(e.ops[0], (ast.Is, ast.IsNot)) and isinstance(e.left, ast.Name) \
                and isinstance(e.comparators[0], ast.Constant) and e.comparators[0].value is None:
            src = path.env.get('?' + e.left.id)
            if e.left.id not in path.env and path.env.get('!' + e.left.id):
                return isinstance(e.ops[0], ast.IsNot)
            if e.left.id not in path.env and isinstance(src, (ast.List, ast.ListComp, ast.Tuple, ast.Dict, ast.Set, ast.DictComp, ast.SetComp, ast.JoinedStr, ast.BinOp)):
                return isinstance(e.ops[0], ast.IsNot)
            if e.left.id not in path.env and isinstance(src, ast.Call):
                f_ = src.func
                tail = f_.id if isinstance(f_, ast.Name) else (f_.attr if isinstance(f_, ast.Attribute) else None)
                if tail in NEVER_NONE:
                    return isinstance(e.ops[0], ast.IsNot)
        t = norm(e)
        if t in path.assume:
            return path.assume[t]
        if self.atom is not None:
            a = self.atom(e, path)
            if a is not None:
                return a
        return None

    def atoms_of(self, e, path):
        """the unknown leaves of a boolean expression, left to right"""
        if isinstance(e, ast.BoolOp):
            out = []
            for v in e.values:
                out.extend(self.atoms_of(v, path))
            return out
        if isinstance(e, ast.UnaryOp) and isinstance(e.op, ast.Not):
            return self.atoms_of(e.operand, path)
        if self.tri(e, path) is None:
            return [e]
        return []

    # -- tracing
    def trace(self, stmts, env=None):
        self.count = 0
        start = Path(dict(env or {}))
        done = []
        live = self._block(list(stmts), [start], done)
        for p in live:
            p.end = 'fall'
            done.append(p)
        return done

    def _block(self, stmts, live, done):
        """advance all live paths through stmts; finished paths are appended to done; returns paths that fall through"""
        for s in stmts:
            if not live:
                return []
            nxt = []
            for p in live:
                nxt.extend(self._stmt(s, p, done))
            live = nxt
        return live

    def _finish(self, p, kind, node, done):
        p.end = kind
        p.endnode = node
        done.append(p)
        self.count += 1
        if self.count > self.max_paths:
            raise OverflowError('path explosion')

    def _stmt(self, s, p, done):
        if isinstance(s, ast.If):
            return self._if(s, p, done)
        if isinstance(s, ast.Raise):
            p.events.append(('stmt', s))
            self._finish(p, 'raise', s, done)
            return []
        if isinstance(s, ast.Return):
            p.events.append(('stmt', s))
            self._finish(p, 'return', s, done)
            return []
        if isinstance(s, ast.Continue):
            self._finish(p, 'continue', s, done)
            return []
        if isinstance(s, ast.Break):
            self._finish(p, 'break', s, done)
            return []
        if isinstance(s, ast.Expr) and isinstance(s.value, ast.Call) and norm(s.value.func) in self.noreturn:
            p.events.append(('stmt', s))
            self._finish(p, 'raise', s, done)
            return []
        if isinstance(s, (ast.FunctionDef, ast.ClassDef)):
            return [p]
        if isinstance(s, ast.Assign) and len(s.targets) == 1 and isinstance(s.targets[0], ast.Name) and isinstance(s.value, ast.IfExp) \
                and s.targets[0].id not in self.pinned:
            # x = A if c else B : the two arms are two paths (so that a later `x is None` folds on each)
            t = self.tri(s.value.test, p)
            if t is None:
                atoms = self.atoms_of(s.value.test, p)
                if atoms:
                    out = []
                    for val in (True, False):
                        q = p.fork()
                        q.assume[norm(atoms[0])] = val
                        out.extend(self._stmt(s, q, done))
                    return out
            if t is not None:
                arm = s.value.body if t else s.value.orelse
                s2 = ast.copy_location(ast.Assign(targets=s.targets, value=arm), s)
                s2._parent = getattr(s, '_parent', None)
                return self._stmt(s2, p, done)
        if isinstance(s, ast.Assign) and len(s.targets) == 1 and isinstance(s.targets[0], ast.Name):
            v = self.value(s.value, p)
            name = s.targets[0].id
            if name in self.pinned:
                p.events.append(('stmt', s))
                return [p]
            p.env.pop('!' + name, None)
            if v is not UNKNOWN and not isinstance(v, (list, dict, set, bytearray)):
                p.env[name] = v
            else:
                p.env.pop(name, None)
                p.env['?' + name] = s.value
            p.events.append(('stmt', s))
            return [p]
        if isinstance(s, ast.Assign) and len(s.targets) == 1 and isinstance(s.targets[0], (ast.Tuple, ast.List)) \
                and all(isinstance(t, ast.Name) for t in s.targets[0].elts):
            v = self.value(s.value, p)
            names = [t.id for t in s.targets[0].elts]
            for k, name in enumerate(names):
                if name in self.pinned:
                    continue
                if isinstance(v, (tuple, list)) and len(v) == len(names) and v[k] is not UNKNOWN and not isinstance(v[k], (list, dict, set, bytearray)):
                    p.env[name] = v[k]
                else:
                    p.env.pop(name, None)
            p.events.append(('stmt', s))
            return [p]
        if isinstance(s, ast.AugAssign) and isinstance(s.target, ast.Name):
            self._forget(p, s.target.id, aug=True)
            p.events.append(('stmt', s))
            return [p]
        if isinstance(s, (ast.For, ast.While)):
            # loops are recorded as one opaque event; names assigned inside are forgotten
            plain = {t.id for n in ast.walk(s) if isinstance(n, ast.Assign) for t in ast.walk(n.targets[0]) if isinstance(t, ast.Name)} | \
                {t.id for n in ast.walk(s) if isinstance(n, (ast.For, ast.comprehension)) for t in ast.walk(n.target) if isinstance(t, ast.Name)}
            for n in ast.walk(s):
                if isinstance(n, ast.Name) and isinstance(n.ctx, ast.Store):
                    self._forget(p, n.id, aug=n.id not in plain)
            p.events.append(('stmt', s))
            return [p]
        if isinstance(s, ast.Try):
            p.events.append(('stmt', s))
            return [p]
        p.events.append(('stmt', s))
        return [p]

    def _forget(self, p, name, aug=False):
        """the value of `name` is no longer known; if it is only updated in place (x += ...) from a value that was not
        None, it is still not None"""
        was = p.env.get(name, UNKNOWN)
        nonnull = p.env.get('!' + name, False)
        if name in p.env and was is not None and was is not UNKNOWN:
            nonnull = True
        p.env.pop(name, None)
        if aug and nonnull:
            p.env['!' + name] = True
        else:
            p.env.pop('!' + name, None)

    def _if(self, s, p, done):
        t = self.tri(s.test, p)
        if t is None:
            atoms = self.atoms_of(s.test, p)
            if not atoms:
                t = self.tri(s.test, p)
            else:
                a = atoms[0]
                out = []
                for val in (True, False):
                    q = p.fork()
                    q.assume[norm(a)] = val
                    out.extend(self._if(s, q, done))
                return out
        p.events.append(('if', s, bool(t)))
        body = s.body if t else s.orelse
        return self._block(list(body), [p], done)


def if_chain(node):
    """flatten if/elif/else into [(test or None, body)]"""
    out = []
    cur = node
    while True:
        out.append((cur.test, cur.body))
        if len(cur.orelse) == 1 and isinstance(cur.orelse[0], ast.If):
            cur = cur.orelse[0]
            continue
        if cur.orelse:
            out.append((None, cur.orelse))
        break
    return out


def comparison_constants(repo, fi):
    """every integer a comparison in the function mentions (folded), for boundary-representative enumeration"""
    out = set()
    for n in ast.walk(fi.node):
        if isinstance(n, ast.Compare):
            for e in [n.left] + list(n.comparators):
                v = repo.fold(e, fi.module, cls=fi.cls)
                if isinstance(v, int) and not isinstance(v, bool):
                    out.add(int(v))
                elif isinstance(v, (tuple, list, set, frozenset)):
                    for x in v:
                        if isinstance(x, int) and not isinstance(x, bool):
                            out.add(int(x))
        elif isinstance(n, ast.Call) and isinstance(n.func, ast.Name) and n.func.id == 'range':
            for e in n.args:
                v = repo.fold(e, fi.module, cls=fi.cls)
                if isinstance(v, int) and not isinstance(v, bool):
                    out.add(int(v))
    return out


def representatives(consts, extra=(), lo=None, hi=None):
    """c-1, c, c+1 around every constant: a function that is piecewise constant with breakpoints among the constants
    is decided by its values at these points"""
    pts = set()
    for c in list(consts) + list(extra):
        pts.update((c - 1, c, c + 1))
    if lo is not None:
        pts = {p for p in pts if p >= lo} | {lo}
    if hi is not None:
        pts = {p for p in pts if p <= hi} | {hi}
    return sorted(pts)
