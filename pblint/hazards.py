"""HAZARDS: effect rules with the confirmed tree as the baseline.

A whole family of realistic defects does not touch what a function computes but *what it remembers*: a memo table keyed
by too little, a value computed at import time and never refreshed, a result cached on an object that can still change,
a default argument that is mutated, a scratch copy that shares objects with its source.  They are invisible to rules
about layouts and guards, and they are shape-visible: each needs a write that was not there before.

For every function the inventory records its *effects* (tools_inventory.py -> inventory.json):
    G  module globals it rebinds (global X; X = ...)
    M  module-level objects it mutates (X[k] = v, X.attr = v, X.append/add/update/...(..))
    S  attributes it stores on its first parameter / an object (self.x = v, object.__setattr__(o, 'x', v), setattr)
    D  parameters with a mutable default that the body mutates
    C  memoising decorators
The rule: in the files a property is anchored in, the effects of every known function are a subset of its recorded
effects, and a function the inventory does not know (a new helper that was not inlined away) has no G/M/D/C effect and
stores no attribute.  Reads of the selected-chain globals at import time are covered by common.rule_call_time_params.
"""
import ast

from .model import norm, walk_no_nested

MUTATORS = {'append', 'add', 'update', 'setdefault', 'pop', 'popitem', 'clear', 'extend', 'insert', 'remove', 'discard', 'sort', 'reverse', '__setitem__', 'appendleft'}


def _root(e):
    while isinstance(e, (ast.Attribute, ast.Subscript)):
        e = e.value
    return e.id if isinstance(e, ast.Name) else None


def effects_of(fnode, module_names, module=None, is_method=None):
    """{'G': [...], 'M': [...], 'S': [...], 'D': [...], 'C': [...]} of one function (own scope; nested defs included, they
    run as part of it)"""
    G, M, S, D, C, SM = set(), set(), set(), set(), set(), set()
    params = [a.arg for a in fnode.args.posonlyargs + fnode.args.args + fnode.args.kwonlyargs]
    if is_method is None:
        is_method = bool(params) and params[0] in ('self', 'cls')
    first = params[0] if (params and is_method) else None
    local = set(params)
    declared = set()
    for n in ast.walk(fnode):
        if isinstance(n, (ast.Global, ast.Nonlocal)):
            declared.update(n.names)
    for n in ast.walk(fnode):
        if isinstance(n, ast.Name) and isinstance(n.ctx, (ast.Store, ast.Del)) and n.id not in declared:
            local.add(n.id)
        elif isinstance(n, ast.ExceptHandler) and n.name:
            local.add(n.name)
        elif isinstance(n, (ast.Import, ast.ImportFrom)):
            for a in n.names:
                local.add((a.asname or a.name).split('.')[0])
    for d in fnode.decorator_list:
        t = norm(d.func) if isinstance(d, ast.Call) else norm(d)
        if 'cache' in t.lower() or 'memo' in t.lower():
            C.add(t)
    mutable_defaults = set()
    a = fnode.args
    names = [x.arg for x in a.posonlyargs + a.args]
    for p, d in list(zip(names[len(names) - len(a.defaults):], a.defaults)) + [(x.arg, d) for x, d in zip(a.kwonlyargs, a.kw_defaults) if d is not None]:
        if isinstance(d, (ast.Dict, ast.List, ast.Set, ast.ListComp, ast.DictComp, ast.SetComp)) or \
                (isinstance(d, ast.Call) and norm(d.func) in ('dict', 'list', 'set', 'bytearray', 'collections.defaultdict', 'defaultdict', 'collections.OrderedDict')):
            mutable_defaults.add(p)
    for n in ast.walk(fnode):
        if isinstance(n, ast.Name) and isinstance(n.ctx, (ast.Store, ast.Del)) and n.id in declared:
            G.add(n.id)
        if isinstance(n, (ast.Subscript, ast.Attribute)) and isinstance(n.ctx, (ast.Store, ast.Del)):
            r = _root(n)
            if r is None:
                continue
            if r in mutable_defaults:
                D.add(r)
            elif r not in local and r in module_names and isinstance(n.value, ast.Name):
                M.add(r)
            elif r in module_names and r not in local:
                M.add(norm(n.value))
            if isinstance(n, ast.Attribute) and isinstance(n.value, ast.Name) and (n.value.id == first or n.value.id in ('self', 'cls')):
                S.add(n.attr)
            elif isinstance(n, ast.Attribute) and isinstance(n.value, ast.Name) and n.value.id in params and n.value.id not in mutable_defaults:
                S.add('%s.%s' % (n.value.id, n.attr))
            elif r in ('self', first) and r is not None and is_method and not (isinstance(n, ast.Attribute) and isinstance(n.value, ast.Name)):
                SM.add(norm(n.value))
        if isinstance(n, ast.AugAssign) and isinstance(n.target, ast.Name) and n.target.id in mutable_defaults:
            D.add(n.target.id)
        if isinstance(n, ast.Call):
            f = n.func
            if isinstance(f, ast.Attribute) and f.attr in MUTATORS:
                r = _root(f.value)
                if r in mutable_defaults:
                    D.add(r)
                elif r is not None and r not in local and r in module_names:
                    M.add(norm(f.value))
                elif r in ('self', first) and r is not None and is_method and isinstance(f.value, ast.Attribute):
                    SM.add(norm(f.value))
            t = norm(f)
            if t in ('object.__setattr__', 'setattr', 'object.__delattr__', 'delattr') and len(n.args) >= 2:
                tgt = n.args[0]
                for nm in _attr_names(n.args[1], fnode, module):
                    if isinstance(tgt, ast.Name) and (tgt.id == first or tgt.id in ('self', 'cls')):
                        S.add(str(nm))
                    else:
                        S.add('%s.%s' % (norm(tgt), nm))
    return {'G': sorted(G), 'M': sorted(M), 'S': sorted(S), 'SM': sorted(SM), 'D': sorted(D), 'C': sorted(C)}


def _attr_names(e, fnode, module):
    """the attribute names a setattr() name argument can take: a constant, or the loop variable of a `for` over a literal
    table (in place or bound once at module level)"""
    if isinstance(e, ast.Constant):
        return [e.value]
    if isinstance(e, ast.Name):
        for n in ast.walk(fnode):
            if isinstance(n, ast.For):
                tg = n.target
                idx = None
                if isinstance(tg, ast.Name) and tg.id == e.id:
                    idx = -1
                elif isinstance(tg, ast.Tuple):
                    for k, t in enumerate(tg.elts):
                        if isinstance(t, ast.Name) and t.id == e.id:
                            idx = k
                if idx is None:
                    continue
                it = n.iter
                if isinstance(it, ast.Name) and module is not None:
                    b = module.bindings.get(it.id)
                    if b and len(b) == 1 and b[0][0] == 'assign':
                        it = b[0][1]
                if isinstance(it, ast.Call) and norm(it.func) in ('tuple', 'list', 'sorted') and it.args:
                    it = it.args[0]
                if isinstance(it, ast.Call) and isinstance(it.func, ast.Attribute) and it.func.attr == 'items' and isinstance(it.func.value, ast.Dict):
                    it = ast.Tuple(elts=[ast.Tuple(elts=[k, v], ctx=ast.Load()) for k, v in zip(it.func.value.keys, it.func.value.values)], ctx=ast.Load())
                if isinstance(it, (ast.Tuple, ast.List)):
                    out = []
                    for el in it.elts:
                        if idx == -1:
                            c = el
                        elif isinstance(el, (ast.Tuple, ast.List)) and idx < len(el.elts):
                            c = el.elts[idx]
                        else:
                            return ['*']
                        if not isinstance(c, ast.Constant):
                            return ['*']
                        out.append(c.value)
                    return out
    return ['*']


def module_level_names(m):
    return set(m.bindings.keys())


AMBIENT = ('params', 'coreparams')
CONSTRUCTORS = ('__init__', '__new__')


def _mentions_ambient(fnode):
    for n in ast.walk(fnode):
        if isinstance(n, ast.Attribute) and n.attr in AMBIENT:
            return norm(n)
        if isinstance(n, ast.Name) and n.id in AMBIENT and isinstance(n.ctx, ast.Load):
            return n.id
    return None


def reads_ambient(repo, fi, depth=3, seen=None):
    """the selected-chain object this function (or a same-module function it calls by name, to `depth`) reads, or None"""
    seen = seen if seen is not None else set()
    if fi.qualname in seen:
        return None
    seen.add(fi.qualname)
    locals_ = {a.arg for a in fi.node.args.posonlyargs + fi.node.args.args + fi.node.args.kwonlyargs}
    for n in ast.walk(fi.node):
        if isinstance(n, ast.Attribute) and n.attr in AMBIENT:
            return norm(n)
        if isinstance(n, ast.Name) and n.id in AMBIENT and isinstance(n.ctx, ast.Load) and n.id not in locals_:
            return n.id
    if depth <= 0:
        return None
    for n in ast.walk(fi.node):
        if isinstance(n, ast.Call):
            t = norm(n.func)
            cands = [fi.module.name + '.' + t, t]
            if fi.cls is not None and t.startswith(('self.', 'cls.')):
                cands.append(fi.cls.qualname + '.' + t.split('.', 1)[1])
            for c in cands:
                g = repo.functions.get(c)
                if g is not None:
                    a = reads_ambient(repo, g, depth - 1, seen)
                    if a:
                        return '%s (through %s)' % (a, g.qualname)
    return None


def _params(fnode):
    ps = [a.arg for a in fnode.args.posonlyargs + fnode.args.args + fnode.args.kwonlyargs]
    return [p for p in ps if p not in ('self', 'cls')]


def _single_defs(fnode):
    d, multi = {}, set()
    for n in ast.walk(fnode):
        if isinstance(n, ast.Assign) and len(n.targets) == 1 and isinstance(n.targets[0], ast.Name):
            k = n.targets[0].id
            if k in d:
                multi.add(k)
            d[k] = n.value
    return {k: v for k, v in d.items() if k not in multi}


def memo_judgement(fnode, container):
    """`container` (text) is written by fnode. -> (verdict, why); verdict in 'bad', 'open', 'none'

    A table that is both looked up and filled in one function is a memo table.  Its answers equal the uncached ones only
    if the key determines the value: every parameter the function uses must be in the key as itself (not through a
    projection such as .lower() or .GetTxid()), and lookups must use the key the stores use."""
    defs = _single_defs(fnode)

    def res(e, depth=0):
        if isinstance(e, ast.Name) and e.id in defs and depth < 4:
            return res(defs[e.id], depth + 1)
        return e
    stores, lookups = [], []
    for n in ast.walk(fnode):
        if isinstance(n, ast.Subscript) and norm(n.value) == container:
            (stores if isinstance(n.ctx, ast.Store) else lookups).append(n.slice)
        elif isinstance(n, ast.Call) and isinstance(n.func, ast.Attribute) and norm(n.func.value) == container and n.args:
            if n.func.attr in ('add', 'setdefault', 'append'):
                stores.append(n.args[0])
            if n.func.attr in ('get', 'setdefault', '__contains__'):
                lookups.append(n.args[0])
        elif isinstance(n, ast.Compare) and len(n.ops) == 1 and isinstance(n.ops[0], (ast.In, ast.NotIn)) and norm(n.comparators[0]) == container:
            lookups.append(n.left)
    if not stores:
        return 'none', 'no keyed store'
    if not lookups:
        return 'none', 'filled but never looked up here'
    skeys = {norm(res(k)) for k in stores}
    lkeys = {norm(res(k)) for k in lookups}
    if skeys != lkeys:
        return 'bad', 'it is filled under %s and looked up under %s: two inputs that differ are answered alike' % (sorted(skeys), sorted(lkeys))
    used = set()
    for n in ast.walk(fnode):
        if isinstance(n, ast.Name) and isinstance(n.ctx, ast.Load):
            used.add(n.id)
    params = [p for p in _params(fnode) if p in used]
    for k in stores:
        k = res(k)
        bare = {e.id for e in (k.elts if isinstance(k, ast.Tuple) else [k]) if isinstance(e, ast.Name)}
        missing = [p for p in params if p not in bare]
        if missing:
            proj = [p for p in missing if any(isinstance(x, ast.Name) and x.id == p for x in ast.walk(k))]
            if proj:
                return 'bad', 'the key `%s` identifies %s only through a projection: two inputs with the same projection share an answer' % (norm(k), ', '.join(proj))
            return 'bad', 'the key `%s` leaves out the parameter(s) %s the answer depends on' % (norm(k), ', '.join(missing))
    return 'open', 'key `%s` names every parameter' % sorted(skeys)


def _self_reads(fnode):
    return {n.attr for n in ast.walk(fnode) if isinstance(n, ast.Attribute) and isinstance(n.ctx, ast.Load) and isinstance(n.value, ast.Name) and n.value.id == 'self'}


def _stored_outside_constructors(repo, ci, inventory_effects):
    """attribute names of class ci's objects that some function other than __init__/__new__ stores"""
    out = {}
    for q, fi in repo.functions.items():
        if fi.module is not ci.module or fi.name in CONSTRUCTORS:
            continue
        for n in ast.walk(fi.node):
            if isinstance(n, ast.Attribute) and isinstance(n.ctx, ast.Store):
                out.setdefault(n.attr, q)
            elif isinstance(n, ast.Call) and norm(n.func) in ('object.__setattr__', 'setattr') and len(n.args) >= 2 and isinstance(n.args[1], ast.Constant):
                out.setdefault(str(n.args[1].value), q)
    return out


_KNOWN_ATTRS = []


def known_attrs():
    """attribute names the confirmed tree assigns somewhere (slots, class attributes, recorded stores)"""
    if not _KNOWN_ATTRS:
        import json
        from . import desugar
        with open(desugar.INVENTORY) as fh:
            inv = json.load(fh)
        s = set()
        for mv in inv['modules'].values():
            for c in mv['classes'].values():
                s.update(c.get('slots') or [])
                s.update(c.get('attrs') or [])
            for f in mv['functions'].values():
                for a in f.get('effects', {}).get('S', []):
                    s.add(a.rsplit('.', 1)[-1])
                s.update(f.get('stores', []))
        _KNOWN_ATTRS.append(s)
    return _KNOWN_ATTRS[0]


def judge(repo, fi, kind, names, new_fn=False):
    """-> (status, text): 'V' violated, 'U' undecided, 'OK'"""
    f = fi.node
    amb = reads_ambient(repo, fi)
    if kind == 'D':
        return 'V', 'mutates its default argument %s, one object shared by every call: what one call adds, the next call sees' % ', '.join(names)
    if kind == 'C':
        if amb:
            return 'V', 'is memoised (%s) but reads the selected chain %s: the answer for the chain selected first is returned after SelectParams()' % (', '.join(names), amb)
        if fi.cls is not None and _self_reads(f):
            return 'V', ('is memoised (%s) on its object, keyed by hash/equality of the object, and reads its attributes %s: objects that compare equal but differ in them, '
                         'or one object before and after an attribute changes, share an answer' % (', '.join(names), sorted(_self_reads(f))))
        return 'U', 'is memoised (%s); purity of what it computes is not decided here' % ', '.join(names)
    if kind == 'G':
        if amb:
            return 'V', 'latches module global(s) %s from the selected chain %s: the value computed under the chain selected first survives SelectParams()' % (', '.join(names), amb)
        used = {n.id for n in ast.walk(f) if isinstance(n, ast.Name) and isinstance(n.ctx, ast.Load)}
        if [p for p in _params(f) if p in used]:
            return 'V', 'rebinds module global(s) %s from a call\'s arguments: later calls see what an earlier call left' % ', '.join(names)
        return 'U', 'rebinds module global(s) %s' % ', '.join(names)
    if kind in ('M', 'SM'):
        out = []
        worst = 'OK'
        for c in names:
            v, why = memo_judgement(f, c)
            if v == 'bad':
                return 'V', 'keeps the memo table %s between calls, and %s' % (c, why)
            if v == 'open' and amb:
                return 'V', 'keeps the memo table %s between calls (%s) but the answer also depends on the selected chain %s, which is not in the key' % (c, why, amb)
            worst = 'U'
            out.append('%s (%s)' % (c, why))
        return worst, 'mutates %s object(s) %s' % ('module-level' if kind == 'M' else 'its object\'s', '; '.join(out))
    if kind == 'S':
        if fi.name in CONSTRUCTORS:
            return 'OK', 'constructor sets up %s' % ', '.join(names)
        foreign = [a for a in names if '.' in a and (a.rsplit('.', 1)[1] not in known_attrs() or a.endswith('.*'))]
        names = [a for a in names if '.' not in a]
        if foreign:
            memo = []
            for a in foreign:
                root, attr = a.rsplit('.', 1)
                for n in ast.walk(f):
                    if isinstance(n, ast.Attribute) and isinstance(n.ctx, ast.Load) and n.attr == attr and norm(n.value) == root:
                        memo.append(a)
                    elif isinstance(n, ast.Call) and norm(n.func) in ('hasattr', 'getattr') and len(n.args) >= 2 and norm(n.args[0]) == root \
                            and isinstance(n.args[1], ast.Constant) and n.args[1].value == attr:
                        memo.append(a)
            if memo:
                return 'V', ('remembers %s on an object it was handed and reads it back on a later call: the object carries the value through later edits of what it was computed from'
                             % ', '.join(sorted(set(memo))))
            return 'U', 'stores %s on an object it was handed' % ', '.join(foreign)
        if not names:
            return 'OK', 'assigns known fields of an object it was handed'
        if '*' in names:
            return 'U', 'stores attributes under computed names'
        ci = fi.cls
        if ci is None:
            return 'U', 'stores attribute(s) %s' % ', '.join(names)
        mro = repo.mro(ci)
        if any(getattr(c, 'name', c) == 'ImmutableSerializable' for c in mro):
            inherit = []
            for sub in repo.subclasses(ci):
                if any('make_mutable' in norm(d) for d in sub.decorators):
                    g = repo.lookup_method(sub, fi.name) if hasattr(repo, 'lookup_method') else None
                    if g is None or g is fi:
                        inherit.append(sub.name)
            if inherit:
                return 'V', ('remembers %s on the object, and the mutable class(es) %s inherit the method: after the object is edited the remembered value is still returned'
                             % (', '.join(names), ', '.join(sorted(inherit))))
            return 'OK', 'remembers %s on objects that cannot change (no mutable class inherits the method)' % ', '.join(names)
        reads = _self_reads(f) - set(names)
        late = _stored_outside_constructors(repo, ci, None)
        hit = sorted(a for a in reads if a in late)
        # a remembered value is one that can be read back before it is stored again: a read that comes first in this
        # function, or a read anywhere else
        cached = []
        dead = []
        for a in names:
            first_store = min([n.lineno for n in ast.walk(f) if isinstance(n, ast.Attribute) and n.attr == a and isinstance(n.ctx, ast.Store)]
                              + [n.lineno for n in ast.walk(f) if isinstance(n, ast.Call) and norm(n.func) in ('object.__setattr__', 'setattr') and len(n.args) > 1
                                 and isinstance(n.args[1], ast.Constant) and n.args[1].value == a] + [10 ** 9])
            early = [n for n in ast.walk(f) if isinstance(n, ast.Attribute) and n.attr == a and isinstance(n.ctx, ast.Load) and n.lineno < first_store]
            early += [n for n in ast.walk(f) if isinstance(n, ast.Call) and norm(n.func) in ('hasattr', 'getattr') and len(n.args) > 1 and isinstance(n.args[1], ast.Constant)
                      and n.args[1].value == a and n.lineno <= first_store]
            elsewhere = [n for n in ast.walk(ci.module.tree) if isinstance(n, ast.Attribute) and n.attr == a and isinstance(n.ctx, ast.Load)
                         and not (f.lineno <= n.lineno <= (f.end_lineno or f.lineno))]
            if early or elsewhere:
                cached.append(a)
            else:
                dead.append(a)
        if not cached and dead:
            return 'OK', 'stores %s, which nothing reads back before it is stored again' % ', '.join(dead)
        if cached and hit:
            return 'V', ('remembers %s on the object, computed from %s, which %s assigns after construction: the remembered value outlives the state it was computed from'
                         % (', '.join(cached), ', '.join(hit), late[hit[0]]))
        return 'U', 'stores attribute(s) %s outside a constructor' % ', '.join(names)
    return 'U', '%s %s' % (kind, names)


def rule_effects(ctx, rid, files, inventory=None, title=None):
    """the effect rule for the files a property is anchored in"""
    import json
    from . import desugar
    repo = ctx.repo
    r = ctx.rule(rid, title or 'no new remembered state: a function that writes module globals, module-level objects, attributes or a default argument it '
                 'did not write on the confirmed tree must not make its answers depend on earlier calls, on the chain selected earlier, or on the earlier state of an object',
                 engine='EFFECT', floor=5)
    if inventory is None:
        with open(desugar.INVENTORY) as fh:
            inventory = json.load(fh)
    n = 0
    empty = {'G': [], 'M': [], 'S': [], 'SM': [], 'D': [], 'C': []}
    for mname, m in sorted(repo.modules.items()):
        if m.relpath not in files:
            continue
        inv = inventory['modules'].get(mname)
        if inv is None:
            r.undecided('module:%s' % mname, m.relpath + ':0', 'module %s is not in the inventory' % mname)
            continue
        names = module_level_names(m)
        for q, fi in sorted(repo.functions.items()):
            if fi.module is not m or fi.parent is not None:
                continue
            eff = effects_of(fi.node, names, m)
            known = inv['functions'].get(q)
            base = dict(empty, **known.get('effects', {})) if known is not None else empty
            n += 1
            extra = {k: sorted(set(eff[k]) - set(base.get(k, []))) for k in eff}
            extra = {k: v for k, v in extra.items() if v}
            key = q if known is not None else 'new:%s' % q
            if not extra:
                r.ok(key, fi.site, 'effects within the confirmed ones %s' % ({k: v for k, v in base.items() if v} or ''))
                continue
            worst, texts = 'OK', []
            for k, v in sorted(extra.items()):
                st, why = judge(repo, fi, k, v, new_fn=known is None)
                texts.append(why)
                if st == 'V' or (st == 'U' and worst == 'OK'):
                    worst = st
                if st == 'V':
                    texts = [why]
                    break
            head = ('new function %s ' % q) if known is None else ('%s now ' % q)
            if worst == 'V':
                r.violated(key, fi.site, head + texts[0])
            elif worst == 'U':
                r.undecided(key, fi.site, head + '; '.join(texts) + ' - not on the confirmed tree; whether answers can now depend on history is not decided')
            else:
                r.ok(key, fi.site, head + '; '.join(texts))
        for cn, ci in sorted(m.classes.items()):
            kc = inv['classes'].get(cn)
            if kc is None:
                continue
            slots = set(ci.slots or [])
            known_slots = set(kc.get('slots', []) or [])
            newc = sorted(s for s in slots - known_slots if 'cache' in s.lower() or 'memo' in s.lower())
            if newc:
                muts = [c.name for c in repo.subclasses(ci) if any('make_mutable' in norm(d) for d in c.decorators)]
                if muts:
                    r.violated('slots:%s' % cn, ci.site, 'class %s gains cache slot(s) %s: its mutable subclass(es) %s inherit a cache that no edit invalidates' % (cn, newc, muts))
    if n == 0:
        r.undecided('functions', '', 'no function of the anchored files found')
    return r


def describe(eff):
    parts = []
    if eff.get('G'):
        parts.append('rebinds module global(s) %s' % ', '.join(eff['G']))
    if eff.get('M'):
        parts.append('mutates module-level object(s) %s' % ', '.join(eff['M']))
    if eff.get('S'):
        parts.append('stores attribute(s) %s on its object' % ', '.join(eff['S']))
    if eff.get('D'):
        parts.append('mutates its default argument %s (shared by every call)' % ', '.join(eff['D']))
    if eff.get('C'):
        parts.append('is memoised (%s)' % ', '.join(eff['C']))
    return '; '.join(parts)


# files whose functions a property's behaviour runs through, beyond the ones it is anchored in
EXTRA_FILES = {
    'C04': ['bitcoin/core/__init__.py', 'bitcoin/core/serialize.py'],
    'C03': ['bitcoin/core/serialize.py'],
    'C05': ['bitcoin/core/__init__.py', 'bitcoin/core/serialize.py'],
    'C06': ['bitcoin/core/__init__.py'],
    'C07': ['bitcoin/core/__init__.py'],
    'C10': ['bitcoin/core/__init__.py'],
    'C12': ['bitcoin/segwit_addr.py', 'bitcoin/core/__init__.py'],
    'C13': ['bitcoin/core/__init__.py'],
    'C14': ['bitcoin/base58.py', 'bitcoin/core/serialize.py'],
    'C15': ['bitcoin/core/serialize.py'],
    'C16': ['bitcoin/core/serialize.py'],
    'C19': ['bitcoin/core/serialize.py'],
    'C20': ['bitcoin/core/serialize.py'],
}


def files_of(prop):
    import json
    import os
    here = os.path.dirname(os.path.dirname(os.path.abspath(__file__)))
    files = []
    with open(os.path.join(here, 'properties.jsonl')) as fh:
        for line in fh:
            p = json.loads(line)
            if p['id'] == prop:
                files = list(p['anchors']['files'])
    return set(files) | set(EXTRA_FILES.get(prop, []))
