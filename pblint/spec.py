"""Reference tables (the oracles), transcribed from the protocol documents - not from /repo.

BIP141/143/144/173/37, Bitcoin Core script.h / interpreter.cpp / chainparams.cpp / protocol.h, the P2P protocol
documentation, RIPEMD-160 and MurmurHash3 references.  See DESIGN.md Appendix A.
"""
from .layout import Item

U32 = (0, (1 << 32) - 1)
I32 = (-(1 << 31), (1 << 31) - 1)
I64 = (-(1 << 63), (1 << 63) - 1)
U64 = (0, (1 << 64) - 1)
U16 = (0, (1 << 16) - 1)
U8 = (0, 255)


def _int(field, width, endian, rng):
    return Item('int', field=field, width=width, endian=endian, lo=rng[0], hi=rng[1], spec=True)


def u32(f):
    return _int(f, 4, '<', U32)


def i32(f):
    return _int(f, 4, '<', I32)


def i64(f):
    return _int(f, 8, '<', I64)


def u64(f):
    return _int(f, 8, '<', U64)


def u8(f):
    return _int(f, 1, '<', U8)


def u16be(f):
    return _int(f, 2, '>', U16)


def le4(f, lo, hi):
    """4 little-endian bytes carrying values in [lo, hi] (either signedness of format is acceptable)"""
    return _int(f, 4, '<', (lo, hi))


def raw(f, n):
    return Item('raw', field=f, n=n, spec=True)


def vb(f):
    return Item('varbytes', field=f, spec=True)


def const(b):
    return Item('const', value=b, spec=True)


def sub(f, cls, **args):
    return Item('sub', field=f, cls=cls, args=args, spec=True)


def vec(f, *elem):
    return Item('vector', field=f, elem=list(elem), spec=True)


def loop(f, count, *body):
    return Item('loop', field=f, count=count, body=list(body), spec=True)


def cond(guard, then, orelse=()):
    return Item('cond', guard=guard, then=list(then), orelse=list(orelse), spec=True)


# ------------------------------------------------------------------------------------------- A.1 wire layouts
WIRE = {
    'COutPoint': [raw('hash', 32), u32('n')],
    'CTxIn': [sub('prevout', 'COutPoint'), vb('scriptSig'), u32('nSequence')],
    'CTxOut': [i64('nValue'), vb('scriptPubKey')],
    'CScriptWitness': [vec('stack', vb(None))],
    'CTxInWitness': [sub('scriptWitness', 'CScriptWitness')],
    'CTxWitness': [loop('vtxinwit', 'one-per-input', sub(None, 'CTxInWitness'))],
    'CTransaction': [
        i32('nVersion'),
        cond('some-witness-stack-non-empty',
             [const(b'\x00'), const(b'\x01'), vec('vin', sub(None, 'CTxIn')), vec('vout', sub(None, 'CTxOut')),
              sub('wit', 'CTxWitness'), u32('nLockTime')],
             [vec('vin', sub(None, 'CTxIn')), vec('vout', sub(None, 'CTxOut')), u32('nLockTime')]),
    ],
    'CBlockHeader': [i32('nVersion'), raw('hashPrevBlock', 32), raw('hashMerkleRoot', 32),
                     u32('nTime'), u32('nBits'), u32('nNonce')],
    'CBlock': [i32('nVersion'), raw('hashPrevBlock', 32), raw('hashMerkleRoot', 32),
               u32('nTime'), u32('nBits'), u32('nNonce'), vec('vtx', sub(None, 'CTransaction'))],
}
HEADER_BYTES = 80

# CompactSize: (upper bound inclusive, prefix byte or None, struct code)
COMPACT_SIZE = [
    (0xfc, None, 'B'),
    (0xffff, 0xfd, 'H'),
    (0xffffffff, 0xfe, 'I'),
    (None, 0xff, 'Q'),
]

# BIP143 pre-image
BIP143_PREIMAGE = [
    i32('nVersion'), raw('hashPrevouts', 32), raw('hashSequence', 32), sub('prevout', 'COutPoint'),
    vb('script'), _int('amount', 8, '<', (0, (1 << 63) - 1)), u32('nSequence'), raw('hashOutputs', 32),
    u32('nLockTime'), le4('hashtype', 0, 255),
]

# ranges of the fields whose pack sites must carry the full wire range, wherever they are packed (C01.R1 / C04)
FIELD_RANGES = {
    'nLockTime': (4, '<', U32),
    'nSequence': (4, '<', U32),
    'nVersion': (4, '<', I32),
    'nValue': (8, '<', I64),
    'nTime': (4, '<', U32),
    'nBits': (4, '<', U32),
    'nNonce': (4, '<', U32),
}

# ------------------------------------------------------------------------------------------- P2P (C18)
P2P = {
    'CAddress': [cond('protover >= CADDR_TIME_VERSION and (not without_time)', [u32('nTime')], []),
                 u64('nServices'), raw('ip', 16), u16be('port')],
    'CInv': [le4('type', 0, (1 << 31) - 1), raw('hash', 32)],
    'CBlockLocator': [le4('nVersion', 0, (1 << 31) - 1), vec('vHave', raw(None, 32))],
    'CAlert': [vb('vchMsg'), vb('vchSig')],
    'CUnsignedAlert': [i32('nVersion'), i64('nRelayUntil'), i64('nExpiration'), i32('nID'), i32('nCancel'),
                       vec('setCancel', i32(None)), i32('nMinVer'), i32('nMaxVer'), vec('setSubVer', i32(None)),
                       i32('nPriority'), vb('strComment'), vb('strStatusBar'), vb('strReserved')],
    'msg_version': [i32('nVersion'), u64('nServices'), i64('nTime'), sub('addrTo', 'CAddress', without_time='True'),
                    sub('addrFrom', 'CAddress', without_time='True'), u64('nNonce'), vb('strSubVer'),
                    i32('nStartingHeight'), u8('fRelay')],
    'msg_verack': [],
    'msg_addr': [vec('addrs', sub(None, 'CAddress'))],
    'msg_alert': [sub('alert', 'CAlert')],
    'msg_inv': [vec('inv', sub(None, 'CInv'))],
    'msg_getdata': [vec('inv', sub(None, 'CInv'))],
    'msg_notfound': [vec('inv', sub(None, 'CInv'))],
    'msg_getblocks': [sub('locator', 'CBlockLocator'), raw('hashstop', 32)],
    'msg_getheaders': [sub('locator', 'CBlockLocator'), raw('hashstop', 32)],
    # protocol: header followed by a transaction count (always 0) per element - the library omits it (finding F13)
    'msg_headers': [vec('headers', sub(None, 'CBlockHeader'), const(b'\x00'))],
    'msg_tx': [sub('tx', 'CTransaction')],
    'msg_block': [sub('block', 'CBlock')],
    'msg_getaddr': [],
    'msg_ping': [u64('nonce')],
    'msg_pong': [u64('nonce')],
    'msg_reject': [vb('message'), _int('ccode', 1, '<', (None, None)), vb('reason')],
    'msg_mempool': [],
}
P2P_COMMANDS = {
    'msg_version': b'version', 'msg_verack': b'verack', 'msg_addr': b'addr', 'msg_alert': b'alert', 'msg_inv': b'inv',
    'msg_getdata': b'getdata', 'msg_notfound': b'notfound', 'msg_getblocks': b'getblocks',
    'msg_getheaders': b'getheaders', 'msg_headers': b'headers', 'msg_tx': b'tx', 'msg_block': b'block',
    'msg_getaddr': b'getaddr', 'msg_ping': b'ping', 'msg_pong': b'pong', 'msg_reject': b'reject',
    'msg_mempool': b'mempool',
}

# ------------------------------------------------------------------------------------------- chains (A.5)
CHAINS = {
    'mainnet': {'magic': bytes.fromhex('f9beb4d9'), 'PUBKEY_ADDR': 0, 'SCRIPT_ADDR': 5, 'SECRET_KEY': 128, 'hrp': 'bc',
                'class': 'MainParams', 'core': 'CoreMainParams', 'max_money': 21000000 * 100000000,
                'pow_limit': (1 << 224) - 1},
    'testnet': {'magic': bytes.fromhex('0b110907'), 'PUBKEY_ADDR': 111, 'SCRIPT_ADDR': 196, 'SECRET_KEY': 239, 'hrp': 'tb',
                'class': 'TestNetParams', 'core': 'CoreTestNetParams', 'max_money': 21000000 * 100000000,
                'pow_limit': (1 << 224) - 1},
    'signet': {'magic': bytes.fromhex('0a03cf40'), 'PUBKEY_ADDR': 111, 'SCRIPT_ADDR': 196, 'SECRET_KEY': 239, 'hrp': 'tb',
               'class': 'SigNetParams', 'core': 'CoreSigNetParams', 'max_money': 21000000 * 100000000,
               'pow_limit': (1 << 224) - 1},
    'regtest': {'magic': bytes.fromhex('fabfb5da'), 'PUBKEY_ADDR': 111, 'SCRIPT_ADDR': 196, 'SECRET_KEY': 239, 'hrp': 'bcrt',
                'class': 'RegTestParams', 'core': 'CoreRegTestParams', 'max_money': 21000000 * 100000000,
                'pow_limit': (1 << 255) - 1},
}

BASE58_ALPHABET = '123456789ABCDEFGHJKLMNPQRSTUVWXYZabcdefghijkmnopqrstuvwxyz'
BECH32_CHARSET = 'qpzry9x8gf2tvdw0s3jn54khce6mua7l'
BECH32_GENERATORS = [0x3b6a57b2, 0x26508e6d, 0x1ea119fa, 0x3d4233dd, 0x2a1462b3]

SECP256K1_HALF_ORDER = bytes.fromhex('7FFFFFFFFFFFFFFFFFFFFFFFFFFFFFFF5D576E7357A4501DDFE92F46681B20A0')
SECP256K1_NID = 714

# ------------------------------------------------------------------------------------------- opcodes (A.2)
OPCODES = {
    'OP_0': 0x00, 'OP_FALSE': 0x00, 'OP_PUSHDATA1': 0x4c, 'OP_PUSHDATA2': 0x4d, 'OP_PUSHDATA4': 0x4e, 'OP_1NEGATE': 0x4f,
    'OP_RESERVED': 0x50, 'OP_1': 0x51, 'OP_TRUE': 0x51, 'OP_2': 0x52, 'OP_3': 0x53, 'OP_4': 0x54, 'OP_5': 0x55, 'OP_6': 0x56,
    'OP_7': 0x57, 'OP_8': 0x58, 'OP_9': 0x59, 'OP_10': 0x5a, 'OP_11': 0x5b, 'OP_12': 0x5c, 'OP_13': 0x5d, 'OP_14': 0x5e,
    'OP_15': 0x5f, 'OP_16': 0x60,
    'OP_NOP': 0x61, 'OP_VER': 0x62, 'OP_IF': 0x63, 'OP_NOTIF': 0x64, 'OP_VERIF': 0x65, 'OP_VERNOTIF': 0x66, 'OP_ELSE': 0x67,
    'OP_ENDIF': 0x68, 'OP_VERIFY': 0x69, 'OP_RETURN': 0x6a,
    'OP_TOALTSTACK': 0x6b, 'OP_FROMALTSTACK': 0x6c, 'OP_2DROP': 0x6d, 'OP_2DUP': 0x6e, 'OP_3DUP': 0x6f, 'OP_2OVER': 0x70,
    'OP_2ROT': 0x71, 'OP_2SWAP': 0x72, 'OP_IFDUP': 0x73, 'OP_DEPTH': 0x74, 'OP_DROP': 0x75, 'OP_DUP': 0x76, 'OP_NIP': 0x77,
    'OP_OVER': 0x78, 'OP_PICK': 0x79, 'OP_ROLL': 0x7a, 'OP_ROT': 0x7b, 'OP_SWAP': 0x7c, 'OP_TUCK': 0x7d,
    'OP_CAT': 0x7e, 'OP_SUBSTR': 0x7f, 'OP_LEFT': 0x80, 'OP_RIGHT': 0x81, 'OP_SIZE': 0x82,
    'OP_INVERT': 0x83, 'OP_AND': 0x84, 'OP_OR': 0x85, 'OP_XOR': 0x86, 'OP_EQUAL': 0x87, 'OP_EQUALVERIFY': 0x88,
    'OP_RESERVED1': 0x89, 'OP_RESERVED2': 0x8a,
    'OP_1ADD': 0x8b, 'OP_1SUB': 0x8c, 'OP_2MUL': 0x8d, 'OP_2DIV': 0x8e, 'OP_NEGATE': 0x8f, 'OP_ABS': 0x90, 'OP_NOT': 0x91,
    'OP_0NOTEQUAL': 0x92, 'OP_ADD': 0x93, 'OP_SUB': 0x94, 'OP_MUL': 0x95, 'OP_DIV': 0x96, 'OP_MOD': 0x97, 'OP_LSHIFT': 0x98,
    'OP_RSHIFT': 0x99, 'OP_BOOLAND': 0x9a, 'OP_BOOLOR': 0x9b, 'OP_NUMEQUAL': 0x9c, 'OP_NUMEQUALVERIFY': 0x9d,
    'OP_NUMNOTEQUAL': 0x9e, 'OP_LESSTHAN': 0x9f, 'OP_GREATERTHAN': 0xa0, 'OP_LESSTHANOREQUAL': 0xa1,
    'OP_GREATERTHANOREQUAL': 0xa2, 'OP_MIN': 0xa3, 'OP_MAX': 0xa4, 'OP_WITHIN': 0xa5,
    'OP_RIPEMD160': 0xa6, 'OP_SHA1': 0xa7, 'OP_SHA256': 0xa8, 'OP_HASH160': 0xa9, 'OP_HASH256': 0xaa,
    'OP_CODESEPARATOR': 0xab, 'OP_CHECKSIG': 0xac, 'OP_CHECKSIGVERIFY': 0xad, 'OP_CHECKMULTISIG': 0xae,
    'OP_CHECKMULTISIGVERIFY': 0xaf,
    'OP_NOP1': 0xb0, 'OP_NOP2': 0xb1, 'OP_CHECKLOCKTIMEVERIFY': 0xb1, 'OP_NOP3': 0xb2, 'OP_CHECKSEQUENCEVERIFY': 0xb2,
    'OP_NOP4': 0xb3, 'OP_NOP5': 0xb4, 'OP_NOP6': 0xb5, 'OP_NOP7': 0xb6, 'OP_NOP8': 0xb7, 'OP_NOP9': 0xb8, 'OP_NOP10': 0xb9,
    'OP_SMALLINTEGER': 0xfa, 'OP_PUBKEYS': 0xfb, 'OP_PUBKEYHASH': 0xfd, 'OP_PUBKEY': 0xfe, 'OP_INVALIDOPCODE': 0xff,
}
_O = OPCODES
DISABLED = {_O[n] for n in ('OP_CAT', 'OP_SUBSTR', 'OP_LEFT', 'OP_RIGHT', 'OP_INVERT', 'OP_AND', 'OP_OR', 'OP_XOR',
                            'OP_2MUL', 'OP_2DIV', 'OP_MUL', 'OP_DIV', 'OP_MOD', 'OP_LSHIFT', 'OP_RSHIFT')}
ALWAYS_FAIL = DISABLED | {_O['OP_VERIF'], _O['OP_VERNOTIF']}
CONDITIONALS = {_O['OP_IF'], _O['OP_NOTIF'], _O['OP_ELSE'], _O['OP_ENDIF']}
FAIL_WHEN_EXECUTED = ({_O[n] for n in ('OP_RESERVED', 'OP_VER', 'OP_RESERVED1', 'OP_RESERVED2', 'OP_RETURN')}
                      | set(range(0xba, 0x100)))
NOPS_UPGRADABLE = set(range(0xb0, 0xba))
UNARY = {_O[n] for n in ('OP_1ADD', 'OP_1SUB', 'OP_NEGATE', 'OP_ABS', 'OP_NOT', 'OP_0NOTEQUAL')}
BINARY = {_O[n] for n in ('OP_ADD', 'OP_SUB', 'OP_BOOLAND', 'OP_BOOLOR', 'OP_NUMEQUAL', 'OP_NUMEQUALVERIFY',
                          'OP_NUMNOTEQUAL', 'OP_LESSTHAN', 'OP_GREATERTHAN', 'OP_LESSTHANOREQUAL',
                          'OP_GREATERTHANOREQUAL', 'OP_MIN', 'OP_MAX')}
# implemented opcodes: every value > OP_16 that is neither always-fail nor fail-when-executed
IMPLEMENTED = {v for v in range(0x4f, 0x100) if v not in ALWAYS_FAIL and v not in FAIL_WHEN_EXECUTED and v != 0x50}

# arity table: opcode -> (required main-stack depth, set of net deltas on the main stack) when executing
ARITY = {}


def _ar(names, req, deltas):
    for n in names.split():
        ARITY[_O['OP_' + n]] = (req, frozenset(deltas if isinstance(deltas, (set, list, tuple, frozenset)) else [deltas]))


_ar('1NEGATE 1 2 3 4 5 6 7 8 9 10 11 12 13 14 15 16 DEPTH', 0, 1)
_ar('NOP CODESEPARATOR NOP1 NOP2 NOP3 NOP4 NOP5 NOP6 NOP7 NOP8 NOP9 NOP10', 0, 0)
_ar('VERIFY', 1, -1)
_ar('TOALTSTACK', 1, -1)
_ar('FROMALTSTACK', 0, 1)
_ar('2DROP', 2, -2)
_ar('2DUP', 2, 2)
_ar('3DUP', 3, 3)
_ar('2OVER', 4, 2)
_ar('2ROT', 6, 0)
_ar('2SWAP', 4, 0)
_ar('IFDUP', 1, (0, 1))
_ar('DROP', 1, -1)
_ar('DUP', 1, 1)
_ar('NIP', 2, -1)
_ar('OVER', 2, 1)
_ar('PICK', 2, 0)
_ar('ROLL', 2, -1)
_ar('ROT', 3, 0)
_ar('SWAP', 2, 0)
_ar('TUCK', 2, 1)
_ar('SIZE', 1, 1)
_ar('EQUAL', 2, -1)
_ar('EQUALVERIFY', 2, -2)
_ar('1ADD 1SUB NEGATE ABS NOT 0NOTEQUAL', 1, 0)
_ar('ADD SUB BOOLAND BOOLOR NUMEQUAL NUMNOTEQUAL LESSTHAN GREATERTHAN LESSTHANOREQUAL GREATERTHANOREQUAL MIN MAX', 2, -1)
_ar('NUMEQUALVERIFY', 2, -2)
_ar('WITHIN', 3, -2)
_ar('RIPEMD160 SHA1 SHA256 HASH160 HASH256', 1, 0)
_ar('CHECKSIG', 2, -1)
_ar('CHECKSIGVERIFY', 2, -2)

# operator table, a = second from top, b = top
BINOPS = {
    'OP_ADD': 'a + b', 'OP_SUB': 'a - b', 'OP_BOOLAND': 'a != 0 and b != 0', 'OP_BOOLOR': 'a != 0 or b != 0',
    'OP_NUMEQUAL': 'a == b', 'OP_NUMEQUALVERIFY': 'a == b', 'OP_NUMNOTEQUAL': 'a != b', 'OP_LESSTHAN': 'a < b',
    'OP_GREATERTHAN': 'a > b', 'OP_LESSTHANOREQUAL': 'a <= b', 'OP_GREATERTHANOREQUAL': 'a >= b',
    'OP_MIN': 'min(a, b)', 'OP_MAX': 'max(a, b)',
}
UNOPS = {'OP_1ADD': 'x + 1', 'OP_1SUB': 'x - 1', 'OP_NEGATE': '-x', 'OP_ABS': 'abs(x)', 'OP_NOT': 'x == 0', 'OP_0NOTEQUAL': 'x != 0'}
HASH_OPS = {'OP_RIPEMD160': 'ripemd160', 'OP_SHA1': 'sha1', 'OP_SHA256': 'sha256', 'OP_HASH160': 'hash160', 'OP_HASH256': 'hash256'}

LIMITS = {'MAX_SCRIPT_SIZE': 10000, 'MAX_SCRIPT_ELEMENT_SIZE': 520, 'MAX_SCRIPT_OPCODES': 201, 'MAX_STACK_ITEMS': 1000,
          'MAX_NUM_SIZE': 4, 'MAX_KEYS': 20}

# RIPEMD-160 (ISO/IEC 10118-3)
RIPEMD = {
    'ML': [0, 1, 2, 3, 4, 5, 6, 7, 8, 9, 10, 11, 12, 13, 14, 15, 7, 4, 13, 1, 10, 6, 15, 3, 12, 0, 9, 5, 2, 14, 11, 8,
           3, 10, 14, 4, 9, 15, 8, 1, 2, 7, 0, 6, 13, 11, 5, 12, 1, 9, 11, 10, 0, 8, 12, 4, 13, 3, 7, 15, 14, 5, 6, 2,
           4, 0, 5, 9, 7, 12, 2, 10, 14, 1, 3, 8, 11, 6, 15, 13],
    'MR': [5, 14, 7, 0, 9, 2, 11, 4, 13, 6, 15, 8, 1, 10, 3, 12, 6, 11, 3, 7, 0, 13, 5, 10, 14, 15, 8, 12, 4, 9, 1, 2,
           15, 5, 1, 3, 7, 14, 6, 9, 11, 8, 12, 2, 10, 0, 4, 13, 8, 6, 4, 1, 3, 11, 15, 0, 5, 12, 2, 13, 9, 7, 10, 14,
           12, 15, 10, 4, 1, 5, 8, 7, 6, 2, 13, 14, 0, 3, 9, 11],
    'RL': [11, 14, 15, 12, 5, 8, 7, 9, 11, 13, 14, 15, 6, 7, 9, 8, 7, 6, 8, 13, 11, 9, 7, 15, 7, 12, 15, 9, 11, 7, 13, 12,
           11, 13, 6, 7, 14, 9, 13, 15, 14, 8, 13, 6, 5, 12, 7, 5, 11, 12, 14, 15, 14, 15, 9, 8, 9, 14, 5, 6, 8, 6, 5, 12,
           9, 15, 5, 11, 6, 8, 13, 12, 5, 12, 13, 14, 11, 8, 5, 6],
    'RR': [8, 9, 9, 11, 13, 15, 15, 5, 7, 7, 8, 11, 14, 14, 12, 6, 9, 13, 15, 7, 12, 8, 9, 11, 7, 7, 12, 7, 6, 15, 13, 11,
           9, 7, 15, 11, 8, 6, 6, 14, 12, 13, 5, 14, 13, 13, 7, 5, 15, 5, 8, 11, 14, 14, 6, 14, 6, 9, 12, 9, 12, 5, 15, 8,
           8, 5, 12, 9, 12, 5, 14, 6, 8, 13, 6, 5, 15, 13, 11, 11],
    'KL': [0, 0x5a827999, 0x6ed9eba1, 0x8f1bbcdc, 0xa953fd4e],
    'KR': [0x50a28be6, 0x5c4dd124, 0x6d703ef3, 0x7a6d76e9, 0],
    'IV': (0x67452301, 0xefcdab89, 0x98badcfe, 0x10325476, 0xc3d2e1f0),
}

# BIP37
BLOOM = {'seed_mult': 0xFBA4C795, 'max_size': 36000, 'max_funcs': 50, 'c1': 0xcc9e2d51, 'c2': 0x1b873593,
         'r1': 15, 'r2': 13, 'm': 5, 'n': 0xe6546b64, 'f1': 0x85ebca6b, 'f2': 0xc2b2ae35, 'shifts': (16, 13, 16)}

RPC_ERROR_CODES = {-2, -5, -8, -25, -26, -27, -28}

SIGNED_MESSAGE_MAGIC = 'Bitcoin Signed Message:\n'


# protocol versions from which the reader must take the trailing fields of `version` from the wire
VERSION_GATES = {
    'msg_version': {'addrFrom': 106, 'nStartingHeight': 209, 'fRelay': 70001},
}
