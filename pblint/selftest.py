"""Both-ways self-test (DESIGN.md section 4): every seeded single edit must make its rule fire and name the site.

Each variant is applied to a scratch copy of /repo/bitcoin under $TMPDIR (outside /repo and /verif) which is deleted
immediately afterwards.  The pristine twin is the main run of the same check on the unchanged tree.
"""
import ast
import multiprocessing
import os
import shutil
import sys
import tempfile
import time


def _copy_tree(root, dst):
    def ignore(d, names):
        return [n for n in names if n in ('tests', '__pycache__') or n.endswith('.pyc')]
    shutil.copytree(os.path.join(root, 'bitcoin'), os.path.join(dst, 'bitcoin'), ignore=ignore)


def _region(src, scope):
    """(start_offset, end_offset) of the function/class `scope` (dotted, e.g. CTxIn.stream_deserialize)"""
    tree = ast.parse(src)
    parts = scope.split('.')
    node = tree
    for p in parts:
        found = None
        for n in ast.walk(node):
            if isinstance(n, (ast.FunctionDef, ast.ClassDef, ast.AsyncFunctionDef)) and n.name == p and n is not node:
                found = n
                break
        if found is None:
            return None
        node = found
    lines = src.splitlines(keepends=True)
    start = sum(len(l) for l in lines[:node.lineno - 1])
    end = sum(len(l) for l in lines[:node.end_lineno])
    return start, end


def apply_variant(root, v):
    """-> True if applied, False if the anchor text is not present (stale on this tree)"""
    edits = v.get('edits') or [v]
    for e in edits:
        path = os.path.join(root, e['file'])
        with open(path) as fh:
            src = fh.read()
        lo, hi = 0, len(src)
        if e.get('scope'):
            reg = _region(src, e['scope'])
            if reg is None:
                return False
            lo, hi = reg
        seg = src[lo:hi]
        idx = -1
        start = 0
        for _ in range(e.get('nth', 0) + 1):
            idx = seg.find(e['old'], start)
            if idx < 0:
                return False
            start = idx + 1
        seg = seg[:idx] + e['new'] + seg[idx + len(e['old']):]
        src = src[:lo] + seg + src[hi:]
        try:
            ast.parse(src)
        except SyntaxError:
            return False
        with open(path, 'w') as fh:
            fh.write(src)
    return True


def _run_one(args):
    root, v = args
    sys.path.insert(0, os.path.dirname(os.path.dirname(os.path.abspath(__file__))))
    from pblint.check import run_property
    from pblint import report
    tmp = tempfile.mkdtemp(prefix='pblint-st-')
    try:
        _copy_tree(root, tmp)
        if not apply_variant(tmp, v):
            return (v['name'], 'stale', [], '')
        try:
            ctx = run_property(v['prop'], tmp)
        except Exception as e:  # analysis broke on the variant
            return (v['name'], 'error', [], '%s: %s' % (type(e).__name__, e))
        known = report.load_known()
        code, lines, stats = report.summarise(ctx, known)
        viol = [(i.rule, i.key, i.site) for i in stats['new_violations']]
        und = [(i.rule, i.key, i.site) for i in stats['undecided']]
        exp = v['expect']
        if exp == 'SILENT':
            # behaviour-preserving twin: the rules must stay silent and decided
            if viol:
                return (v['name'], 'false-alarm', viol[:3], '')
            if und:
                return (v['name'], 'undecided-on-benign', und[:3], '')
            return (v['name'], 'fired', [('-', 'silent as expected', '')], '')
        if isinstance(exp, str) and exp.startswith('UNDECIDED:'):
            # an edit the family cannot judge: the named rule must say so (exit 2), and no rule may claim a violation
            want = exp.split(':', 1)[1]
            if viol:
                return (v['name'], 'false-alarm', viol[:3], '')
            hit = [x for x in und if x[0].startswith(want)]
            if hit:
                return (v['name'], 'fired', hit[:3], '')
            return (v['name'], 'silent' if not und else 'other-rule', und[:3], '')
        exps = exp if isinstance(exp, (list, tuple)) else [exp]
        hit = [x for x in viol if any(x[0].startswith(e) for e in exps)]
        if hit:
            return (v['name'], 'fired', hit[:3], '')
        if viol:
            return (v['name'], 'other-rule', viol[:3], '')
        if und:
            return (v['name'], 'undecided', und[:3], '')
        return (v['name'], 'silent', [], '')
    finally:
        shutil.rmtree(tmp, ignore_errors=True)


def run_selftest(prop, root, jobs=16, variants=None):
    from pblint.variants import VARIANTS
    vs = [v for v in (variants or VARIANTS) if v['prop'] == prop]
    t0 = time.time()
    if not vs:
        return {'variants_total': 0, 'variants_fired': 0, 'failed': 0, 'lines': ['SELFTEST %s: no variants' % prop], 'results': []}
    with multiprocessing.Pool(min(jobs, len(vs))) as pool:
        res = pool.map(_run_one, [(root, v) for v in vs])
    lines = []
    fired = stale = failed = 0
    out = []
    for name, status, hits, msg in res:
        out.append({'variant': name, 'status': status, 'hits': ['%s %s @%s' % h for h in hits], 'msg': msg})
        if status == 'fired':
            fired += 1
        elif status == 'stale':
            stale += 1
        else:
            failed += 1
            lines.append('SELFTEST-FAIL property=%s variant=%s status=%s %s %s' % (prop, name, status, hits, msg))
    lines.append('SELFTEST %s: %d variants, %d fired, %d stale (anchor text absent on this tree), %d failed, %.1fs'
                 % (prop, len(vs), fired, stale, failed, time.time() - t0))
    return {'variants_total': len(vs), 'variants_fired': fired, 'variants_stale': stale, 'failed': failed,
            'lines': lines, 'results': out}


if __name__ == '__main__':
    sys.path.insert(0, os.path.dirname(os.path.dirname(os.path.abspath(__file__))))
    props = sys.argv[1:] or None
    from pblint.variants import VARIANTS
    ids = sorted({v['prop'] for v in VARIANTS}) if not props else [p.upper() for p in props]
    bad = 0
    for p in ids:
        r = run_selftest(p, '/repo')
        for l in r['lines']:
            print(l)
        for x in r['results']:
            if x['status'] != 'fired':
                print('   ', x)
        bad += r['failed']
    sys.exit(2 if bad else 0)
