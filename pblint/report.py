"""Verdict plumbing: rules, instances, known findings, evidence (DESIGN.md section 4)."""
import json
import os
import time

from .model import AnalysisError

HOLDS, VIOLATED, UNDECIDED = 'HOLDS', 'VIOLATED', 'UNDECIDED'

VERIF_DIR = os.path.dirname(os.path.dirname(os.path.abspath(__file__)))
KNOWN_FILE = os.path.join(VERIF_DIR, 'known_findings.json')


class Instance(object):
    __slots__ = ('rule', 'key', 'status', 'site', 'detail', 'path', 'sure')

    def __init__(self, rule, key, status, site, detail, path=None):
        self.rule = rule
        self.key = key
        self.status = status
        self.site = site
        self.detail = detail
        self.path = path
        self.sure = False

    def as_dict(self):
        d = {'rule': self.rule, 'key': self.key, 'status': self.status, 'site': self.site, 'detail': self.detail}
        if self.path:
            d['path'] = self.path
        return d


class Rule(object):
    """One rule of one property. Floors count obligations (anchors to be checked), never guards found."""

    def __init__(self, ctx, rid, title, engine='', floor=0):
        self.ctx = ctx
        self.id = rid
        self.title = title
        self.engine = engine
        self.floor = floor
        self.instances = []
        self.notes = []
        self.consulted = set()
        ctx.rules.append(self)

    def _add(self, key, status, site, detail, path=None):
        self.instances.append(Instance(self.id, key, status, site, detail, path))

    def ok(self, key, site='', detail=''):
        self._add(key, HOLDS, site, detail)

    def violated(self, key, site, detail, path=None, sure=False):
        """sure=True: the verdict rests on a fact established on the code as it stands (an effect, an unguarded index, an
        operation that cannot carry the needed information), not on a difference from the shape the rule knows; such an
        instance is reported whatever the structural distance from the confirmed tree (DESIGN.md 12.5)"""
        self._add(key, VIOLATED, site, detail, path)
        self.instances[-1].sure = sure

    def undecided(self, key, site, detail):
        self._add(key, UNDECIDED, site, detail)

    def check(self, cond, key, site, detail_ok='', detail_bad='', sure=False):
        if cond:
            self.ok(key, site, detail_ok)
        else:
            self.violated(key, site, detail_bad or detail_ok, sure=sure)
        return cond

    def note(self, text):
        if text not in self.notes:
            self.notes.append(text)

    def consult(self, what):
        self.consulted.add(what)

    def counts(self):
        c = {HOLDS: 0, VIOLATED: 0, UNDECIDED: 0}
        for i in self.instances:
            c[i.status] += 1
        return c


class Ctx(object):
    def __init__(self, prop, repo, tier='quick', root='/repo'):
        self.prop = prop
        self.repo = repo
        self.tier = tier
        self.root = root
        self.rules = []
        self.assumptions = []
        self.not_decided = []
        self.extra = {}
        self.explained = {}

    def explain(self, fi, node, why, part=None):
        """a property rule has decided, by reasoning about what it does, a statement or test that is written differently
        from the confirmed source: the token-edit rule (Z3) need not ask about the same line again (`part`: only that
        part of the line, e.g. 'default:flags')"""
        self.explained[(fi.qualname, getattr(node, 'lineno', 0), part)] = why

    def rule(self, rid, title, engine='', floor=0):
        return Rule(self, rid, title, engine, floor)

    def assume(self, text):
        if text not in self.assumptions:
            self.assumptions.append(text)


def load_known():
    if not os.path.exists(KNOWN_FILE):
        return []
    with open(KNOWN_FILE) as fh:
        return json.load(fh).get('findings', [])


def match_known(known, prop, inst):
    for k in known:
        if k.get('status') != 'known':
            continue
        if k['property'] == prop and k['rule'] == inst.rule and k['key'] == inst.key:
            return k
    return None


MAX_DISTANCE = int(os.environ.get('PBLINT_MAX_DISTANCE', '6'))  # statements, summed over the tree; see DESIGN.md section 12.5


def _distance(ctx):
    if not hasattr(ctx, '_distance'):
        try:
            from .desugar import structural_distance
            ctx._distance = structural_distance(ctx.repo)
        except Exception:
            ctx._distance = ({}, {})
    return ctx._distance


def _scope(ctx):
    try:
        from . import delta
        return delta.scope(ctx.prop)
    except Exception:
        return []


def summarise(ctx, known):
    """-> (exit_code, lines, stats)

    Verdict policy: a VIOLATED instance is reported as a violation only while the file it points into is still within
    MAX_DISTANCE statements of the confirmed tree (after desugaring).  Beyond that the rules' knowledge of the code's
    shape is not trusted to tell a defect from a rewrite: the instance is reported UNDECIDED (exit 2), with the distance."""
    lines = []
    per_file, detail = _distance(ctx)
    downgraded = 0
    for r in ctx.rules:
        for i in r.instances:
            if i.status == VIOLATED and match_known(known, ctx.prop, i) is None and getattr(r, 'engine', '') != 'EFFECT' and not i.sure:
                f = (i.site or '').split(':')[0]
                d = sum(per_file.values()) if per_file else 0
                if d > MAX_DISTANCE:
                    i.status = UNDECIDED
                    i.detail = ('%s  [reported undecided: %s differs from the confirmed tree by %d statements (limit %d) - a rewrite of this size '
                                'is outside what the shape rules can tell from a defect]' % (i.detail, 'the tree', d, MAX_DISTANCE))
                    downgraded += 1
    new_violations = []
    known_hits = []
    undecided = []
    floor_fail = []
    total = holds = 0
    for r in ctx.rules:
        c = r.counts()
        total += len(r.instances)
        holds += c[HOLDS]
        if len(r.instances) < r.floor:
            floor_fail.append((r, len(r.instances)))
        for i in r.instances:
            if i.status == VIOLATED:
                k = match_known(known, ctx.prop, i)
                if k is not None:
                    known_hits.append((i, k))
                else:
                    new_violations.append(i)
            elif i.status == UNDECIDED:
                undecided.append(i)
    for i, k in known_hits:
        lines.append('KNOWN-FINDING: property=%s rule=%s key=%s site=%s %s' % (ctx.prop, i.rule, i.key, i.site, k.get('what', i.detail)))
    for i in undecided:
        lines.append('ANALYSIS-ERROR property=%s rule=%s site=%s key=%s reason=%s' % (ctx.prop, i.rule, i.site, i.key, i.detail))
    for r, n in floor_fail:
        lines.append('ANALYSIS-ERROR property=%s rule=%s reason=instance count %d below the confirmed floor %d' % (ctx.prop, r.id, n, r.floor))
    code = 0
    if new_violations:
        code = 1
    elif undecided or floor_fail:
        code = 2
    stats = {'total': total, 'holds': holds, 'new_violations': new_violations, 'known_hits': known_hits,
             'undecided': undecided, 'floor_fail': floor_fail}
    return code, lines, stats


def write_violations(ctx, stats):
    out = []
    vdir = os.path.join(VERIF_DIR, 'evidence', 'violations')
    os.makedirs(vdir, exist_ok=True)
    for n, i in enumerate(stats['new_violations']):
        p = os.path.join(vdir, '%s-%d.json' % (ctx.prop, n))
        with open(p, 'w') as fh:
            json.dump({'property': ctx.prop, 'root': ctx.root, **i.as_dict()}, fh, indent=1)
        out.append((i, p))
    return out


def write_evidence(ctx, stats, wall, tier, seed, selftest=None, path=None):
    rules = []
    samples = []
    distinct = set()
    for r in ctx.rules:
        c = r.counts()
        rules.append({
            'rule': r.id, 'title': r.title, 'engine': r.engine, 'floor': r.floor,
            'instances': len(r.instances), 'holds': c[HOLDS], 'violated': c[VIOLATED], 'undecided': c[UNDECIDED],
            'consulted': sorted(r.consulted)[:40], 'notes': r.notes,
            'samples': [i.as_dict() for i in r.instances[:3]],
        })
        for i in r.instances:
            distinct.add((i.rule, i.key))
        for i in r.instances[:2]:
            samples.append({'rule': i.rule, 'key': i.key, 'site': i.site, 'status': i.status, 'detail': i.detail[:300]})
    cov = {
        'explanation': ('Static analysis of the working tree at %s (ast only, no library code executed). '
                        'Each rule instance is an obligation decided for all inputs at once from the shape of the code: '
                        '%d rules, %d obligations, %d discharged, %d known findings, %d new violations, %d undecided.'
                        % (ctx.root, len(ctx.rules), stats['total'], stats['holds'], len(stats['known_hits']),
                           len(stats['new_violations']), len(stats['undecided']))),
        'evaluations': stats['total'],
        'distinct_nontrivial': len(distinct),
        'rule': 'one evaluation = one rule instance (a call site, class, table row, guard or layout field) decided from the AST; '
                'distinct = distinct (rule, instance key) pairs; every instance is non-trivial in the sense that a concrete construct of /repo was inspected',
        'samples': samples[:24],
        'obligations': stats['total'],
        'discharged': stats['holds'],
        'rules': rules,
        'modules_analysed': sorted(ctx.repo.modules),
        'functions_in_model': len(ctx.repo.functions),
        'classes_in_model': len(ctx.repo.classes),
        'not_decided': ctx.not_decided,
        'known_findings_reported': [{'rule': i.rule, 'key': i.key, 'site': i.site} for i, _ in stats['known_hits']],
        'exhaustive': False,
        'desugaring': {'log': list(getattr(ctx.repo, 'desugar_log', []))[:60],
                       'explanation': 'newer-Python spellings (assignment/conditional expressions, tuple, starred and chained assignment, one-field unpacking, BytesIO/suppress context managers, extend(generator)) are first lowered to the statements they abbreviate (lower.py, exact under syntactic side conditions); edits that introduce names the confirmed vocabulary (pblint/inventory.json) does not know - new helpers, constants, temporaries - are inlined before the rules run, and statements whose spelling the inventory does not have are read as the confirmed statement with the same normal form (restore.py: guards by linear normal form / formula equivalence with evaluation order kept, arithmetic normal forms, positional calls, else-after-exit, nested ifs, zero-trip guards); empty on the confirmed tree'},
        'scope': {'functions': _scope(ctx), 'explanation': 'functions compared statement by statement with the confirmed tree by DELTA (Z2) and TOKEN (Z3): the ones the property\'s anchors name, the other methods of their classes, and what they call by name'},
        'structural_distance': {'per_file': {k: v for k, v in _distance(ctx)[0].items() if v}, 'limit': MAX_DISTANCE,
                                'explanation': 'statements by which the known functions differ from the confirmed tree; a VIOLATED instance is reported as a violation only within the limit, as UNDECIDED beyond it'},
    }
    cov.update(ctx.extra)
    if selftest is not None:
        cov['selftest'] = selftest
    ev = {
        'property_id': ctx.prop,
        'tier': tier,
        'seed': seed,
        'level': 'other',
        'coverage': cov,
        'assumptions': ctx.assumptions,
        'wall_s': round(wall, 3),
        'violations': len(stats['new_violations']),
    }
    path = path or os.path.join(VERIF_DIR, 'evidence', '%s.json' % ctx.prop)
    os.makedirs(os.path.dirname(path), exist_ok=True)
    with open(path, 'w') as fh:
        json.dump(ev, fh, indent=1, default=str)
    return path
