"""Three-way matching of a small arithmetic/boolean expression against its reference form.

same  : canonical forms are equal (commutative operands sorted, constants folded)            -> HOLDS
near  : built from the same names, but constants, operators or nesting differ                -> VIOLATED (a recognised
        variation of the reference formula: same measure, different rule)
other : different names / unrelated structure: an equivalent rewrite cannot be told from a
        wrong one without evaluating arithmetic                                                -> UNDECIDED
"""
import ast

from .model import norm


def canon(e):
    if isinstance(e, ast.Constant) and isinstance(e.value, int) and not isinstance(e.value, bool):
        return hex(e.value)
    if isinstance(e, ast.BinOp):
        a, b = canon(e.left), canon(e.right)
        op = type(e.op).__name__
        if op in ('Add', 'Mult', 'BitAnd', 'BitOr', 'BitXor'):
            a, b = sorted([a, b])
        return '%s(%s,%s)' % (op, a, b)
    if isinstance(e, ast.UnaryOp):
        return '%s(%s)' % (type(e.op).__name__, canon(e.operand))
    if isinstance(e, ast.Compare) and len(e.ops) == 1:
        return 'Cmp%s(%s,%s)' % (type(e.ops[0]).__name__, canon(e.left), canon(e.comparators[0]))
    if isinstance(e, ast.BoolOp):
        return '%s(%s)' % (type(e.op).__name__, ','.join(canon(v) for v in e.values))
    if isinstance(e, ast.Call):
        return '%s(%s)' % (norm(e.func), ','.join(canon(a) for a in e.args))
    if isinstance(e, ast.Subscript):
        return '%s[%s]' % (canon(e.value), norm(e.slice))
    return norm(e)


def names(e):
    return sorted({n.id for n in ast.walk(e) if isinstance(n, ast.Name)} | {n.attr for n in ast.walk(e) if isinstance(n, ast.Attribute)})


def parse(text):
    return ast.parse(text, mode='eval').body


def match(expr, want_text, fold=None):
    """fold: optional callable mapping a Name/Attribute node to an int (module constants)"""
    want = parse(want_text) if isinstance(want_text, str) else want_text
    if fold is not None:
        expr = _fold(expr, fold)
        want = _fold(want, fold)
    if canon(expr) == canon(want):
        return 'same'
    try:
        from .rules import canon_arith
        if not isinstance(expr, (ast.Compare, ast.BoolOp)) and canon_arith(expr) == canon_arith(want):
            return 'same'
    except Exception:
        pass
    if names(expr) == names(want):
        return 'near'
    return 'other'


def _fold(e, fold):
    class T(ast.NodeTransformer):
        def visit_Name(s, n):
            v = fold(n)
            if isinstance(v, int) and not isinstance(v, bool):
                return ast.Constant(value=v)
            return n

        def visit_Attribute(s, n):
            v = fold(n)
            if isinstance(v, int) and not isinstance(v, bool):
                return ast.Constant(value=v)
            return s.generic_visit(n)
    return T().visit(ast.parse(ast.unparse(e), mode='eval').body)


def verdict(rule, key, site, expr, want_text, what, fold=None):
    """record the three-way verdict on a rule"""
    if expr is None:
        rule.undecided(key, site, '%s: expression not found in a recognised place' % what)
        return 'missing'
    m = match(expr, want_text, fold)
    if m == 'same':
        rule.ok(key, site, '%s: `%s`' % (what, norm(expr)))
    elif m == 'near':
        rule.violated(key, site, '%s is `%s`; reference form: `%s`' % (what, norm(expr), want_text if isinstance(want_text, str) else norm(want_text)))
    else:
        rule.undecided(key, site, '%s is written as `%s`, not recognisably the reference form `%s`' % (what, norm(expr), want_text if isinstance(want_text, str) else norm(want_text)))
    return m
