"""Signature-hash analyses shared by C03 / C04 / C05: decision tables over the 256 hash-type bytes and the
commitment (kill-set) analysis of the legacy scratch copy.  Guards are folded by the TABLE engine; the statements
on each path are interpreted over a small abstract domain.  Nothing is executed.
"""
import ast
import re

from .model import UNKNOWN, ClassRef, FuncRef, norm, walk_no_nested
from .table import Tracer
from .layout import fmt_info, fmt_str

ZERO32 = b'\x00' * 32


def find_function(repo, q):
    return repo.get_function(q)


def hash_kind(repo, call, fi):
    """is `call` a call of the library's double-SHA256 / hash160 helper? -> 'Hash' | 'Hash160' | None"""
    if not isinstance(call, ast.Call):
        return None
    v = repo.fold(call.func, fi.module, cls=fi.cls)
    if isinstance(v, FuncRef) and v.info.qualname in ('bitcoin.core.serialize.Hash', 'bitcoin.core.serialize.Hash160'):
        return v.info.name
    return None


def orderings(a_name, b_text):
    """three orderings of two integers touched only through comparisons"""
    return [('lt', 1, 2), ('eq', 2, 2), ('gt', 3, 2)]


# ------------------------------------------------------------------------------------------------ BIP143
class Bip143(object):
    def __init__(self, repo):
        self.repo = repo
        self.fi = repo.get_function('bitcoin.core.script.SignatureHash')
        self.params = self.fi.params
        self.branch = None
        for st in self.fi.node.body:
            if isinstance(st, ast.If):
                t = st.test
                if isinstance(t, ast.Compare) and len(t.ops) == 1 and isinstance(t.ops[0], ast.Eq):
                    sides = [norm(t.left), norm(t.comparators[0])]
                    if 'sigversion' in sides:
                        other = t.comparators[0] if norm(t.left) == 'sigversion' else t.left
                        v = repo.fold(other, self.fi.module)
                        if v == repo.module_value(self.fi.module, 'SIGVERSION_WITNESS_V0'):
                            self.branch = st
        self.legacy_tail = []
        if self.branch is not None:
            idx = self.fi.node.body.index(self.branch)
            self.legacy_tail = self.fi.node.body[idx + 1:]

    def element(self, e, loopvar):
        """element appended to a buffer inside `for loopvar in ...`"""
        def rel(x):
            t = norm(x)
            if loopvar is not None:
                t = re.sub(r'\b%s\b' % re.escape(loopvar), '<e>', t)
            return t
        if isinstance(e, ast.Call):
            f = e.func
            if isinstance(f, ast.Attribute) and f.attr == 'serialize' and not e.args and not e.keywords:
                return ('ser', rel(f.value))
            if isinstance(f, ast.Attribute) and f.attr == 'pack' and norm(f.value) == 'struct' and len(e.args) == 2:
                fmt = self.repo.fold(e.args[0], self.fi.module)
                if fmt is not UNKNOWN:
                    return ('int', fmt_str(fmt), rel(e.args[1]))
        return None

    def buf_expr(self, e, sym):
        """elements of a bytes-valued expression: concatenations, tracked buffers, b''.join(<generator over a sequence>),
        single serialisations / struct.pack -> tuple of elements, None if not understood"""
        repo, fi = self.repo, self.fi
        v = repo.fold(e, fi.module)
        if isinstance(v, bytes):
            return () if not v else None
        if isinstance(e, ast.Name):
            cur = sym.get(e.id)
            return cur[1] if cur and cur[0] == 'buf' else None
        if isinstance(e, ast.BinOp) and isinstance(e.op, ast.Add):
            a, b = self.buf_expr(e.left, sym), self.buf_expr(e.right, sym)
            return None if a is None or b is None else a + b
        if isinstance(e, ast.Call) and isinstance(e.func, ast.Attribute) and e.func.attr == 'join' and len(e.args) == 1 \
                and repo.fold(e.func.value, fi.module) == b'' and isinstance(e.args[0], (ast.GeneratorExp, ast.ListComp)):
            g = e.args[0]
            if len(g.generators) == 1 and not g.generators[0].ifs and isinstance(g.generators[0].target, ast.Name):
                el = self.element(g.elt, g.generators[0].target.id)
                if el is not None:
                    return (('loop', norm(g.generators[0].iter), (el,)),)
            return None
        el = self.element(e, None)
        if el is not None:
            return (el,)
        return None

    def row(self, ht, idx, nout):
        """symbolic values of the three sub-hashes for one (hash type, index/output-count ordering) -> dict or str(problem)"""
        repo, fi = self.repo, self.fi
        env = {'hashtype': ht, 'inIdx': idx, '$x': {'len(txTo.vout)': nout}}
        tr = Tracer(repo, fi.module)
        # only the statements before the pre-image stream is created matter here
        stmts = []
        for s in self.branch.body:
            if isinstance(s, ast.Assign) and isinstance(s.value, ast.Call) and norm(s.value.func).endswith('BytesIO'):
                break
            stmts.append(s)
        paths = tr.trace(stmts, env)
        if len(paths) != 1:
            return 'guards do not fold for hashtype=0x%02x (%d paths): %s' % (ht, len(paths), sorted({k for p in paths for k in p.assume}))
        sym = {}
        for s in paths[0].stmts():
            r = self.apply(s, sym)
            if r is not None:
                return r
        return sym

    def apply(self, s, sym):
        repo, fi = self.repo, self.fi
        if isinstance(s, ast.Assign) and len(s.targets) == 1 and isinstance(s.targets[0], ast.Name):
            name = s.targets[0].id
            v = repo.fold(s.value, fi.module)
            if isinstance(v, bytes):
                sym[name] = ('bytes', v) if v else ('buf', ())
                return None
            hk = hash_kind(repo, s.value, fi)
            if hk == 'Hash' and len(s.value.args) == 1:
                els = self.buf_expr(s.value.args[0], sym)
                if els is None:
                    return 'hash of something that is not a tracked buffer: %s' % norm(s)[:90]
                sym[name] = ('hash', els)
                return None
            if hk is not None:
                return 'unexpected hash helper in `%s`' % norm(s)
            els = self.buf_expr(s.value, sym)
            if els is not None:
                sym[name] = ('buf', els)
                return None
            if isinstance(s.value, ast.Constant) and s.value.value is None:
                # a sentinel: "no buffer yet" (tests on it are folded by the tracer)
                sym.pop(name, None)
                return None
            return 'unmodelled assignment `%s`' % norm(s)[:80]
        if isinstance(s, ast.For):
            if isinstance(s.target, ast.Name) and len(s.body) == 1 and isinstance(s.body[0], ast.AugAssign) \
                    and isinstance(s.body[0].op, ast.Add) and isinstance(s.body[0].target, ast.Name):
                buf = s.body[0].target.id
                el = self.element(s.body[0].value, s.target.id)
                if el is None or sym.get(buf, ('x',))[0] != 'buf':
                    return 'unmodelled loop body `%s`' % norm(s.body[0])[:80]
                sym[buf] = ('buf', sym[buf][1] + (('loop', norm(s.iter), (el,)),))
                return None
            return 'unmodelled loop `%s`' % norm(s)[:60]
        if isinstance(s, ast.AugAssign) and isinstance(s.target, ast.Name) and isinstance(s.op, ast.Add):
            el = self.element(s.value, None)
            if el is None or sym.get(s.target.id, ('x',))[0] != 'buf':
                return 'unmodelled `%s`' % norm(s)[:80]
            sym[s.target.id] = ('buf', sym[s.target.id][1] + (el,))
            return None
        if isinstance(s, ast.Expr) and isinstance(s.value, ast.Constant):
            return None
        return 'unmodelled statement `%s`' % norm(s)[:80]

    @staticmethod
    def reference(ht, idx, nout):
        base, acp = ht & 0x1f, bool(ht & 0x80)
        want = {}
        want['hashPrevouts'] = 'zero' if acp else 'all-prevouts'
        want['hashSequence'] = 'zero' if (acp or base in (2, 3)) else 'all-sequences'
        if base not in (2, 3):
            want['hashOutputs'] = 'all-outputs'
        elif base == 3 and idx < nout:
            want['hashOutputs'] = 'single-output'
        else:
            want['hashOutputs'] = 'zero'
        return want

    @staticmethod
    def classify(v):
        if v is None:
            return 'unset'
        if v == ('bytes', ZERO32):
            return 'zero'
        if v[0] == 'hash':
            els = v[1]
            if len(els) == 1 and els[0][0] == 'loop':
                _, it, body = els[0]
                if len(body) == 1:
                    b = body[0]
                    if it == 'txTo.vin' and b == ('ser', '<e>.prevout'):
                        return 'all-prevouts'
                    if it == 'txTo.vin' and b[0] == 'int' and b[2] == '<e>.nSequence':
                        w, order, rng = fmt_info(b[1])
                        if w == 4 and order == '<' and rng and rng[0] <= 0 and rng[1] >= (1 << 32) - 1:
                            return 'all-sequences'
                        return 'all-sequences-with-format-%s' % b[1]
                    if it == 'txTo.vout' and b == ('ser', '<e>'):
                        return 'all-outputs'
            if len(els) == 1 and els[0] == ('ser', 'txTo.vout[inIdx]'):
                return 'single-output'
        return 'other:%r' % (v,)


# ------------------------------------------------------------------------------------------------ legacy
class Legacy(object):
    """Abstract interpretation of RawSignatureHash's edits of its scratch copy."""

    def __init__(self, repo):
        self.repo = repo
        self.fi = repo.get_function('bitcoin.core.script.RawSignatureHash')
        p = self.fi.params
        if len(p) != 4:
            raise ValueError('RawSignatureHash signature changed')
        self.p_script, self.p_tx, self.p_idx, self.p_ht = p
        self.scratch = None
        for st in walk_no_nested(self.fi.node):
            if isinstance(st, ast.Assign) and isinstance(st.value, ast.Call) and isinstance(st.value.func, ast.Attribute) \
                    and st.value.func.attr == 'from_tx' and len(st.value.args) == 1 and norm(st.value.args[0]) == self.p_tx \
                    and isinstance(st.targets[0], ast.Name):
                self.scratch = st.targets[0].id
                self.copy_stmt = st

    def rows(self):
        """enumerate (ht, idx-vs-nin ordering, idx-vs-nout ordering) -> (path, env)"""
        tr = Tracer(self.repo, self.fi.module)
        # every byte value, and hash types outside a byte (the type is a 32-bit quantity: bit 0x80 and the low five bits
        # select, whatever the other bits are)
        for ht in list(range(256)) + WIDE_HASHTYPES:
            for on, idx, nin in (('idx<nin', 1, 2), ('idx=nin', 2, 2), ('idx>nin', 3, 2)):
                for oo, nout in (('idx<nout', idx + 1), ('idx=nout', idx), ('idx>nout', idx - 1)):
                    env = {self.p_ht: ht, self.p_idx: idx,
                           '$x': {'len(%s.vin)' % self.p_tx: nin, 'len(%s.vout)' % self.scratch: nout,
                                  'len(%s.vout)' % self.p_tx: nout, 'len(%s.vin)' % self.scratch: nin}}
                    yield ht, on, oo, tr.trace(self.fi.node.body, env)

    # abstract state of the scratch transaction
    def fresh(self):
        return {'own.scriptSig': 'orig', 'others.scriptSig': 'orig', 'own.nSequence': 'orig', 'others.nSequence': 'orig',
                'own.prevout': 'orig', 'others.prevout': 'orig', 'inputs': 'all', 'outputs': 'all', 'wit': 'orig',
                'nVersion': 'orig', 'nLockTime': 'orig', 'copied': False, 'tmp': {}, 'vars': {}}

    def interpret(self, path):
        """-> (state, result, problem). result: ('const-one', err) | ('digest', layout) | None"""
        S = self.fresh()
        sc, idx = self.scratch, self.p_idx
        repo, fi = self.repo, self.fi
        result = None
        for s in path.stmts():
            t = norm(s)
            if isinstance(s, ast.Expr) and isinstance(s.value, ast.Constant):
                continue
            if s is getattr(self, 'copy_stmt', None):
                S['copied'] = True
                continue
            if isinstance(s, ast.Assign) and len(s.targets) == 1 and isinstance(s.targets[0], ast.Name) and not _mentions(s.value, sc):
                # plain local: HASH_ONE = b'..', outIdx = inIdx, hash = Hash(s)
                nm = s.targets[0].id
                v = repo.fold(s.value, fi.module, env=path.env)
                if v is not UNKNOWN:
                    S['vars'][nm] = ('const', v)
                elif isinstance(s.value, ast.Name):
                    S['vars'][nm] = S['vars'].get(s.value.id, ('name', s.value.id))
                elif hash_kind(repo, s.value, fi) == 'Hash' and len(s.value.args) == 1 and isinstance(s.value.args[0], ast.Name):
                    S['vars'][nm] = ('hash', S['vars'].get(s.value.args[0].id))
                else:
                    S['vars'][nm] = ('expr', t)
                continue
            if isinstance(s, ast.Return):
                result = self.result(s, S, path)
                continue
            if not _mentions(s, sc):
                if isinstance(s, ast.AugAssign) and isinstance(s.target, ast.Name) and isinstance(s.op, ast.Add):
                    # s += struct.pack(b"<i", hashtype)
                    cur = S['vars'].get(s.target.id)
                    if cur and cur[0] == 'ser':
                        el = None
                        v = s.value
                        if isinstance(v, ast.Call) and norm(v.func) == 'struct.pack' and len(v.args) == 2:
                            fmt = repo.fold(v.args[0], fi.module)
                            el = ('int', fmt_str(fmt) if fmt is not UNKNOWN else '?', norm(v.args[1]))
                        if el is None:
                            return S, None, 'unmodelled digest input `%s`' % t
                        S['vars'][s.target.id] = ('ser', cur[1] + (el,))
                        continue
                if _mentions(s, self.p_tx):
                    return S, None, 'statement touching the caller\'s transaction: `%s`' % t[:80]
                continue
            # ---- statements touching the scratch copy
            m = None
            if isinstance(s, ast.For):
                handled = self.input_loop(s, S, path)
                if handled is True:
                    continue
                if isinstance(handled, str):
                    return S, None, handled
            # txtmp.vout = <list expression> / txtmp.vin = <list expression>
            if isinstance(s, ast.Assign) and len(s.targets) == 1 and norm(s.targets[0]) in ('%s.vout' % sc, '%s.vin' % sc) \
                    and norm(s.value) not in ('[]', 'list()'):
                which = 'vout' if norm(s.targets[0]).endswith('.vout') else 'vin'
                lst = self.list_expr(s.value, S, path, which)
                if lst is not None:
                    if which == 'vout':
                        S['vout_list'] = lst
                        S['outputs'] = 'list'
                    else:
                        S['vin_list'] = lst
                        S['inputs'] = 'list'
                    continue
            # s = <bytes expression over the scratch copy>
            if isinstance(s, ast.Assign) and len(s.targets) == 1 and isinstance(s.targets[0], ast.Name):
                els = self.ser_expr(s.value, S)
                if els is not None:
                    S['vars'][s.targets[0].id] = ('ser', els)
                    continue
            # for txin in txtmp.vin: txin.scriptSig = b''
            if isinstance(s, ast.For) and norm(s.iter) == '%s.vin' % sc and isinstance(s.target, ast.Name) and len(s.body) == 1:
                b = s.body[0]
                if isinstance(b, ast.Assign) and norm(b.targets[0]) == '%s.scriptSig' % s.target.id:
                    v = repo.fold(b.value, fi.module)
                    if v == b'':
                        S['own.scriptSig'] = S['others.scriptSig'] = 'blank'
                        continue
                    if isinstance(v, bytes):
                        S['own.scriptSig'] = S['others.scriptSig'] = 'set to %r' % (v,)
                        continue
                    return S, None, 'scriptSig blanked with `%s`' % norm(b.value)
            # txtmp.vin[inIdx].scriptSig = FindAndDelete(script, CScript([OP_CODESEPARATOR]))
            if isinstance(s, ast.Assign) and norm(s.targets[0]) == '%s.vin[%s].scriptSig' % (sc, idx):
                S['own.scriptSig'] = self.subscript_kind(s.value)
                continue
            # txtmp.vout = []
            if isinstance(s, ast.Assign) and norm(s.targets[0]) == '%s.vout' % sc and norm(s.value) in ('[]', 'list()'):
                S['outputs'] = 'none'
                S['vout_list'] = []
                continue
            # for i in range(len(txtmp.vin)): if i != inIdx: txtmp.vin[i].nSequence = 0
            if isinstance(s, ast.For) and norm(s.iter) == 'range(len(%s.vin))' % sc and isinstance(s.target, ast.Name) and len(s.body) == 1:
                i = s.target.id
                b = s.body[0]
                guard = None
                if isinstance(b, ast.If) and not b.orelse and len(b.body) == 1:
                    guard = norm(b.test)
                    b = b.body[0]
                if isinstance(b, ast.Assign) and norm(b.targets[0]) == '%s.vin[%s].nSequence' % (sc, i) and repo.fold(b.value, fi.module) == 0:
                    if S['inputs'] == 'list' and guard is not None:
                        # the list was rebuilt (ANYONECANPAY): the signed input now sits at position 0, the guard still
                        # compares with its original index
                        S['own.nSequence'] = 'zero whenever inIdx > 0 (positional index used after the input list was pruned)'
                    elif guard in ('%s != %s' % (i, idx), '%s != %s' % (idx, i), 'not %s == %s' % (i, idx)):
                        S['others.nSequence'] = 'zero'
                    elif guard is None:
                        S['others.nSequence'] = 'zero'
                        S['own.nSequence'] = 'zero'
                    elif guard in ('%s == %s' % (i, idx), '%s == %s' % (idx, i)):
                        S['own.nSequence'] = 'zero'
                    else:
                        return S, None, 'sequence-zeroing loop guarded by `%s`' % guard
                    continue
            # tmp = txtmp.vout[outIdx] / tmp = txtmp.vin[inIdx]
            if isinstance(s, ast.Assign) and isinstance(s.targets[0], ast.Name) and isinstance(s.value, ast.Subscript):
                base = norm(s.value.value)
                ix = self.index_kind(s.value.slice, S, path)
                if base == '%s.vout' % sc:
                    S['tmp'][s.targets[0].id] = ('out', ix)
                    continue
                if base == '%s.vin' % sc:
                    S['tmp'][s.targets[0].id] = ('in', ix)
                    continue
            # for i in range(outIdx): txtmp.vout.append(CTxOut())
            if isinstance(s, ast.For) and isinstance(s.iter, ast.Call) and norm(s.iter.func) == 'range' and len(s.iter.args) == 1 \
                    and len(s.body) == 1 and norm(s.body[0]).startswith('%s.vout.append(' % sc):
                cnt = self.index_kind(s.iter.args[0], S, path)
                arg = s.body[0].value.args[0]
                blank = self.blank_output(arg)
                if blank is None:
                    return S, None, 'filler output is `%s`' % norm(arg)
                S.setdefault('vout_list', []).append(('blanks', cnt, blank))
                S['outputs'] = 'list'
                continue
            # txtmp.vout.append(tmp) / txtmp.vin.append(tmp)
            m = re.match(r'^%s\.(vout|vin)\.append\((\w+)\)$' % re.escape(sc), t)
            if m and isinstance(s, ast.Expr):
                which, var = m.group(1), m.group(2)
                src = S['tmp'].get(var)
                if src is None:
                    return S, None, 'append of an untracked value `%s`' % var
                if which == 'vout':
                    S.setdefault('vout_list', []).append(('keep', src))
                    S['outputs'] = 'list'
                else:
                    S.setdefault('vin_list', []).append(('keep', src))
                    S['inputs'] = 'list'
                continue
            if isinstance(s, ast.Assign) and norm(s.targets[0]) == '%s.vin' % sc and norm(s.value) in ('[]', 'list()'):
                S['inputs'] = 'list'
                S['vin_list'] = []
                continue
            m = re.match(r'^%s\.vin = \[(\w+)\]$' % re.escape(sc), t)
            if m and m.group(1) in S['tmp']:
                S['inputs'] = 'list'
                S['vin_list'] = [('keep', S['tmp'][m.group(1)])]
                continue
            # txtmp.wit = CTxWitness()
            if isinstance(s, ast.Assign) and norm(s.targets[0]) == '%s.wit' % sc:
                v = s.value
                ok = isinstance(v, ast.Call) and not v.args and not v.keywords
                cv = repo.fold(v.func, fi.module) if ok else None
                if ok and isinstance(cv, ClassRef) and cv.info.name == 'CTxWitness':
                    S['wit'] = 'empty'
                    continue
                return S, None, 'witness replaced by `%s`' % norm(v)
            # s = txtmp.serialize()
            if isinstance(s, ast.Assign) and isinstance(s.targets[0], ast.Name) and norm(s.value) == '%s.serialize()' % sc:
                S['vars'][s.targets[0].id] = ('ser', (('scratch', self.snapshot(S)),))
                continue
            # s = CTransaction(txtmp.vin, txtmp.vout, ...).serialize(): a reconstruction from the scratch copy's fields
            if isinstance(s, ast.Assign) and isinstance(s.targets[0], ast.Name) and isinstance(s.value, ast.Call) \
                    and isinstance(s.value.func, ast.Attribute) and s.value.func.attr == 'serialize' and isinstance(s.value.func.value, ast.Call):
                snap = self.reconstruction(s.value.func.value, S)
                if isinstance(snap, str):
                    return S, None, snap
                S['vars'][s.targets[0].id] = ('ser', (('scratch', snap),))
                continue
            return S, None, 'unmodelled edit of the scratch transaction: `%s`' % t[:90]
        return S, result, None

    def input_loop(self, s, S, path):
        """A loop over the scratch copy's inputs that assigns fields of some of them, in any of the spellings
        `for i in range(len(T.vin))` / `for i, e in enumerate(T.vin)` / `for e in T.vin`, with the selection written as
        `if i != idx: ...`, `if i == idx: continue`, or not at all.  -> True (state updated) | problem text | None (not such a loop)"""
        sc, idx = self.scratch, self.p_idx
        repo, fi = self.repo, self.fi
        it = norm(s.iter)
        ivar = evar = None
        if it == 'range(len(%s.vin))' % sc and isinstance(s.target, ast.Name):
            ivar = s.target.id
        elif it == 'enumerate(%s.vin)' % sc and isinstance(s.target, ast.Tuple) and len(s.target.elts) == 2 \
                and all(isinstance(x, ast.Name) for x in s.target.elts):
            ivar, evar = s.target.elts[0].id, s.target.elts[1].id
        elif it == '%s.vin' % sc and isinstance(s.target, ast.Name):
            evar = s.target.id
        elif it == 'range(len(%s.vout))' % sc and isinstance(s.target, ast.Name) and any(
                isinstance(x, ast.Subscript) and norm(x.value) == '%s.vin' % sc and norm(x.slice) == s.target.id for x in ast.walk(s)):
            # the inputs are indexed, but the loop is bounded by the number of OUTPUTS of the scratch copy
            if S.get('outputs') == 'none' and not S.get('vout_list'):
                return True  # the outputs were just emptied: the loop body never runs, no input is touched
            return 'a loop that edits the inputs is bounded by the number of outputs (`%s`)' % it
        else:
            import re as _re
            m_ = _re.match(r'^range\((\d+), len\(%s\.vin\)\)$' % _re.escape(sc), it)
            if m_ and int(m_.group(1)) > 0 and isinstance(s.target, ast.Name) and any(
                    isinstance(x, ast.Subscript) and norm(x.value) == '%s.vin' % sc and norm(x.slice) == s.target.id for x in ast.walk(s)):
                # the loop that treats "the other inputs" starts after the first one(s): input 0 is an other input
                # whenever a later one is signed
                return 'DEFECT: the loop over the inputs starts at %s (`%s`): the first input(s) are never visited, although they are other inputs whenever a later one is signed' % (m_.group(1), it)
            return None
        if s.orelse:
            return None
        # flatten the body into (guard, assignment) pairs
        pairs = []

        def walk(stmts, guards):
            for k, b in enumerate(stmts):
                if isinstance(b, ast.If) and not b.orelse and len(b.body) == 1 and isinstance(b.body[0], ast.Continue):
                    # if <g>: continue   -> the rest runs under not g
                    r_ = walk(stmts[k + 1:], guards + [('not', b.test)])
                    return r_
                if isinstance(b, ast.If):
                    r_ = walk(b.body, guards + [('pos', b.test)])
                    if r_ is not True:
                        return r_
                    if b.orelse:
                        r_ = walk(b.orelse, guards + [('not', b.test)])
                        if r_ is not True:
                            return r_
                    continue
                if isinstance(b, ast.Assign) and len(b.targets) == 1:
                    pairs.append((list(guards), b))
                    continue
                if isinstance(b, ast.Pass):
                    continue
                return 'unmodelled statement in a loop over the inputs: `%s`' % norm(b)[:70]
            return True
        r_ = walk(s.body, [])
        if r_ is not True:
            return r_
        if not pairs:
            return None
        for guards, b in pairs:
            tgt = norm(b.targets[0])
            field = None
            for f_ in ('scriptSig', 'nSequence', 'prevout'):
                if (ivar and tgt == '%s.vin[%s].%s' % (sc, ivar, f_)) or (evar and tgt == '%s.%s' % (evar, f_)):
                    field = f_
            if field is None:
                return 'a loop over the inputs assigns `%s`' % tgt
            # which inputs?
            sel = 'all'
            for pol, g in guards:
                gt = norm(g)
                eq = gt in ('%s == %s' % (ivar, idx), '%s == %s' % (idx, ivar)) if ivar else False
                ne = gt in ('%s != %s' % (ivar, idx), '%s != %s' % (idx, ivar), 'not %s == %s' % (ivar, idx)) if ivar else False
                if not (eq or ne):
                    import re as _re
                    if ivar and (_re.match(r'^%s (<|>|<=|>=) %s$' % (_re.escape(ivar), _re.escape(idx)), gt) or _re.match(r'^%s (<|>|<=|>=) %s$' % (_re.escape(idx), _re.escape(ivar)), gt)):
                        # an ordering test splits the inputs into those before and those after the signed one; the
                        # consensus rule separates the signed input from all others
                        return 'DEFECT: input loop guarded by `%s`: it treats the inputs before the signed one differently from those after it' % gt
                    if ivar and gt in ('%s is not %s' % (ivar, idx), '%s is not %s' % (idx, ivar), '%s is %s' % (ivar, idx), '%s is %s' % (idx, ivar)):
                        # identity of two int objects: equal indices above the interpreter's small-integer cache (256) are
                        # different objects, so the signed input is no longer told apart from the others
                        return 'DEFECT: input loop guarded by `%s`: object identity is not equality for integers (indices above 256 are never identical)' % gt
                    return 'input loop guarded by `%s`' % gt
                own = eq if pol == 'pos' else ne
                this = 'own' if own else 'others'
                if sel == 'all':
                    sel = this
                elif sel != this:
                    sel = 'none'
            if sel == 'none':
                continue
            v = repo.fold(b.value, fi.module, env=path.env)
            if field == 'scriptSig':
                val = 'blank' if v == b'' else ('set to %r' % (v,) if isinstance(v, bytes) else None)
                if val is None:
                    return 'scriptSig set to `%s` in a loop' % norm(b.value)
            elif field == 'nSequence':
                val = 'zero' if v == 0 and v is not UNKNOWN else ('set to %r' % (v,) if isinstance(v, int) else None)
                if val is None:
                    return 'nSequence set to `%s` in a loop' % norm(b.value)
            else:
                return 'prevout rewritten in a loop'
            if S['inputs'] == 'list' and guards:
                # the list was rebuilt (ANYONECANPAY): the signed input now sits at position 0, the guard still
                # compares with its original index
                S['own.' + field] = '%s whenever inIdx > 0 (positional index used after the input list was pruned)' % val
                continue
            if sel in ('all', 'own'):
                S['own.' + field] = val
            if sel in ('all', 'others'):
                S['others.' + field] = val
        return True

    def list_expr(self, e, S, path, which):
        """abstract value of a list expression assigned to the scratch copy's vin / vout -> list of descriptors or None"""
        sc = self.scratch
        if isinstance(e, ast.BinOp) and isinstance(e.op, ast.Add):
            a = self.list_expr(e.left, S, path, which)
            b = self.list_expr(e.right, S, path, which)
            return None if a is None or b is None else a + b
        if isinstance(e, ast.List):
            out = []
            for x in e.elts:
                if isinstance(x, ast.Name) and x.id in S['tmp']:
                    out.append(('keep', S['tmp'][x.id]))
                elif isinstance(x, ast.Subscript) and norm(x.value) in ('%s.vout' % sc, '%s.vin' % sc):
                    out.append(('keep', ('out' if norm(x.value).endswith('.vout') else 'in', self.index_kind(x.slice, S, path))))
                else:
                    blank = self.blank_output(x)
                    if blank is None:
                        return None
                    out.append(('blanks', 'expr:1', blank))
            return out
        if isinstance(e, ast.ListComp) and len(e.generators) == 1 and not e.generators[0].ifs:
            g = e.generators[0]
            if isinstance(g.iter, ast.Call) and norm(g.iter.func) == 'range' and len(g.iter.args) == 1:
                blank = self.blank_output(e.elt)
                if blank is None:
                    return None
                return [('blanks', self.index_kind(g.iter.args[0], S, path), blank)]
            return None
        if isinstance(e, ast.BinOp) and isinstance(e.op, ast.Mult) and isinstance(e.left, ast.List) and len(e.left.elts) == 1:
            # [CTxOut()] * n : n references to one blank output (never edited afterwards: same bytes as n blanks)
            blank = self.blank_output(e.left.elts[0])
            if blank is None:
                return None
            return [('blanks', self.index_kind(e.right, S, path), blank)]
        return None

    def ser_expr(self, e, S):
        """abstract value of a bytes expression built from the scratch copy -> tuple of elements or None"""
        repo, fi, sc = self.repo, self.fi, self.scratch
        if isinstance(e, ast.BinOp) and isinstance(e.op, ast.Add):
            a = self.ser_expr(e.left, S)
            b = self.ser_expr(e.right, S)
            return None if a is None or b is None else a + b
        if norm(e) == '%s.serialize()' % sc:
            return (('scratch', self.snapshot(S)),)
        if isinstance(e, ast.Call) and norm(e.func) == 'struct.pack' and len(e.args) == 2:
            fmt = repo.fold(e.args[0], fi.module)
            return (('int', fmt_str(fmt) if fmt is not UNKNOWN else '?', norm(e.args[1])),)
        if isinstance(e, ast.Name):
            v = S['vars'].get(e.id)
            if v and v[0] == 'ser':
                return v[1]
            return None
        if isinstance(e, ast.Call) and isinstance(e.func, ast.Attribute) and e.func.attr == 'serialize' and isinstance(e.func.value, ast.Call) and not e.args:
            snap = self.reconstruction(e.func.value, S)
            if isinstance(snap, str):
                return None
            return (('scratch', snap),)
        return None

    def reconstruction(self, call, S):
        """state of the object built by <TxClass>(scratch.vin, scratch.vout, ...) -> snapshot dict or problem text"""
        from .layout import LayoutEngine
        repo, fi, sc = self.repo, self.fi, self.scratch
        cv = repo.fold(call.func, fi.module)
        tx = repo.classes.get('bitcoin.core.CTransaction')
        if not (isinstance(cv, ClassRef) and tx is not None and repo.is_subclass(cv.info, tx)):
            return 'unmodelled digest input `%s`' % norm(call)[:70]
        eng = LayoutEngine(repo)
        init, slots = eng.param_slots(cv.info)
        ps = init.params[1:]
        bound = {}
        for i, a in enumerate(call.args):
            if i < len(ps):
                bound[ps[i]] = norm(a)
        for k in call.keywords:
            bound[k.arg] = norm(k.value)
        snap = self.snapshot(S)
        for pn in ps:
            sl = slots.get(pn)
            if sl is None:
                continue
            val = bound.get(pn)
            if val == '%s.%s' % (sc, sl):
                continue
            if sl == 'wit':
                if val is None:
                    d = init.defaults().get(pn)
                    dv = repo.fold(d, init.module) if d is not None else None
                    snap['wit'] = 'empty' if (dv is None or (hasattr(dv, 'cls') and dv.cls.name == 'CTxWitness' and not dv.args)) else 'default:%s' % norm(d)
                else:
                    snap['wit'] = 'expr:%s' % val
                continue
            if sl in ('vin', 'vout'):
                return 'the reconstruction takes %s from `%s`' % (sl, val)
            snap[sl] = 'constructor default (field of the transaction not hashed)' if val is None else 'expr:%s' % val
        return snap

    def snapshot(self, S):
        import copy
        return {k: copy.deepcopy(v) for k, v in S.items() if k not in ('tmp', 'vars')}

    def index_kind(self, e, S, path):
        """'own' if the expression is the signed input's index (inIdx or a copy of it)"""
        t = norm(e)
        if t == self.p_idx:
            return 'own'
        v = S['vars'].get(t)
        if v == ('name', self.p_idx):
            return 'own'
        if v and v[0] == 'const' and v[1] == path.env.get(self.p_idx):
            # a local that folded to the same number as inIdx under this row: decide by its definition
            return 'own' if path.env.get('?' + t) is None else 'expr:' + t
        return 'expr:' + t

    def subscript_kind(self, v):
        """FindAndDelete(script, CScript([OP_CODESEPARATOR])) -> 'subscript-minus-codeseparators'"""
        repo, fi = self.repo, self.fi
        if isinstance(v, ast.Call) and len(v.args) == 2:
            f = repo.fold(v.func, fi.module)
            if isinstance(f, FuncRef) and f.info.qualname == 'bitcoin.core.script.FindAndDelete' and norm(v.args[0]) == self.p_script:
                a = v.args[1]
                if isinstance(a, ast.Call) and len(a.args) == 1 and isinstance(a.args[0], ast.List) and len(a.args[0].elts) == 1:
                    cv = repo.fold(a.func, fi.module)
                    op = repo.fold(a.args[0].elts[0], fi.module)
                    if isinstance(cv, ClassRef) and cv.info.name == 'CScript' and op == 0xab:
                        return 'subscript-minus-codeseparators'
                return 'subscript-minus:%s' % norm(a)
        if norm(v) == self.p_script:
            return 'subscript-verbatim'
        return 'other:%s' % norm(v)

    def blank_output(self, arg):
        """CTxOut() with the constructor defaults folding to (-1, empty script)"""
        repo, fi = self.repo, self.fi
        if isinstance(arg, ast.Call) and len(arg.args) <= 1 and not arg.keywords:
            cv = repo.fold(arg.func, fi.module)
            if isinstance(cv, ClassRef) and cv.info.name in ('CTxOut', 'CMutableTxOut'):
                init = repo.lookup_method(cv.info, '__init__')
                d = init.defaults() if init else {}
                nv = repo.fold(d.get('nValue'), init.module) if 'nValue' in d else UNKNOWN
                if arg.args:
                    # CTxOut(v): the value given explicitly (the first parameter after self)
                    if not (init and init.params[1:2] == ['nValue']):
                        return None
                    nv = repo.fold(arg.args[0], fi.module)
                sp = d.get('scriptPubKey')
                spv = None
                if isinstance(sp, ast.Call) and not sp.args:
                    c2 = repo.fold(sp.func, init.module)
                    if isinstance(c2, ClassRef) and c2.info.name == 'CScript':
                        spv = b''
                return ('blank', nv, spv)
        return None

    def result(self, s, S, path):
        v = s.value
        if isinstance(v, ast.Tuple) and len(v.elts) == 2:
            a, b = v.elts
            av = S['vars'].get(norm(a)) if isinstance(a, ast.Name) else None
            if av is None and isinstance(a, ast.Call) and hash_kind(self.repo, a, self.fi) == 'Hash' and len(a.args) == 1:
                els = self.ser_expr(a.args[0], S)
                if els is not None:
                    av = ('hash', ('ser', els))
            if av is None:
                fv = self.repo.fold(a, self.fi.module, env=path.env)
                av = ('const', fv) if fv is not UNKNOWN else ('expr', norm(a))
            bv = self.repo.fold(b, self.fi.module, env=path.env)
            err = 'none' if bv is None else 'error'
            return (av, err)
        return (('expr', norm(v)), 'unknown')

    @staticmethod
    def reference(ht, on, oo):
        """expected abstract outcome (Appendix A.3)"""
        base, acp = ht & 0x1f, bool(ht & 0x80)
        if on != 'idx<nin':
            return 'const-one'
        if base == 3 and oo != 'idx<nout':
            return 'const-one'
        want = {
            'own.scriptSig': 'subscript-minus-codeseparators', 'others.scriptSig': 'blank',
            'own.nSequence': 'orig', 'others.nSequence': 'orig' if base not in (2, 3) else 'zero',
            'own.prevout': 'orig', 'others.prevout': 'orig', 'wit': 'empty', 'nVersion': 'orig', 'nLockTime': 'orig',
            'inputs': 'own-only' if acp else 'all',
            'outputs': 'none' if base == 2 else ('single' if base == 3 else 'all'),
        }
        return want


WIDE_HASHTYPES = [0x100, 0x101, 0x102, 0x103, 0x181, 0x183, 0x7fffff02, 0x7fffff83, -1, -126, -125, -128]


def _mentions(node, name):
    for n in ast.walk(node):
        if isinstance(n, ast.Name) and n.id == name:
            return True
    return False
