"""Rule building blocks shared by several properties."""
import ast
import struct as _struct

from .model import (UNKNOWN, ClassRef, FuncRef, ExternalRef, StructVal, ClassInfo, AnalysisError, norm, walk_no_nested)
from .layout import (LayoutEngine, Undecided, Comparator, finalise_reader, finalise_writer, canon_reader, fmt_info,
                     split_fmt, fmt_str, describe, Item)
from . import flow


def site_of(fi_or_mod, node):
    m = getattr(fi_or_mod, 'module', fi_or_mod)
    return '%s:%d' % (m.relpath, getattr(node, 'lineno', 0) if node is not None else 0)


def diff_site(fi_w, fi_r, d):
    if d.w is not None and getattr(d.w, 'node', None) is not None and fi_w is not None:
        return site_of(fi_w, d.w.node)
    if d.r is not None and getattr(d.r, 'node', None) is not None and fi_r is not None:
        return site_of(fi_r, d.r.node)
    return (fi_w or fi_r).site if (fi_w or fi_r) else ''


def diff_key(prefix, d):
    f = None
    for x in (d.w, d.r):
        if x is not None and getattr(x, 'field', None):
            f = x.field
            break
    return '%s:%s:%s' % (prefix, d.what, f or '-')


def width_resolver(repo, eng, ci):
    """raw(None) writer items: width from a constant assigned to the slot in __init__ (self.pchReserved = IPV4_COMPAT)"""
    def width_of(item):
        if item.kind != 'raw' or not item.field:
            return None
        init = repo.lookup_method(ci, '__init__')
        if init is None:
            return None
        for st in walk_no_nested(init.node):
            if isinstance(st, ast.Assign) and len(st.targets) == 1 and isinstance(st.targets[0], ast.Attribute) \
                    and st.targets[0].attr == item.field.split('.')[-1]:
                v = repo.fold(st.value, init.module, cls=ci)
                if isinstance(v, (bytes, bytearray)):
                    return len(v)
        return None
    return width_of


def layouts_of(repo, eng, ci, wname, rname):
    fw = repo.lookup_method(ci, wname)
    fr = repo.lookup_method(ci, rname)
    if fw is None or fr is None:
        raise AnalysisError('%s lacks %s/%s' % (ci.qualname, wname, rname))
    W = finalise_writer(eng.writer(fw, ctxcls=ci))
    notes = []
    R, _ = finalise_reader(eng.reader(fr, ctxcls=ci))
    R = canon_reader(R, notes)
    return fw, fr, W, R, notes


def rule_agreement(rule, repo, eng, ci, wname='stream_serialize', rname='stream_deserialize', spec=None, label=None):
    """writer/reader agreement for one class (+ optionally both against the protocol table). -> Comparator or None"""
    label = label or ci.name
    try:
        fw, fr, W, R, notes = layouts_of(repo, eng, ci, wname, rname)
    except Undecided as e:
        fi = repo.lookup_method(ci, wname)
        rule.undecided(label, site_of(ci.module, e.node) if e.node is not None else ci.site, str(e))
        return None
    rule.consult(fw.qualname)
    rule.consult(fr.qualname)
    gates = [n for n in notes if isinstance(n, tuple) and n and n[0] == 'gate']
    for n in notes:
        if not isinstance(n, tuple):
            rule.note('%s: %s' % (label, n))
    from . import spec as _spec
    for _g, thr, fields, item in gates:
        want = getattr(_spec, 'VERSION_GATES', {}).get(label)
        if want is None:
            rule.undecided('%s:gate:%d' % (label, thr), site_of(fr, item.node), 'a version gate (>= %d) in a message that has none in the protocol table' % thr)
            continue
        first = next((f for f in fields if f), None)
        exp = want.get(first)
        if exp is None:
            rule.undecided('%s:gate:%s' % (label, first), site_of(fr, item.node), 'version gate >= %d opens with `%s`, which the protocol table does not gate' % (thr, first))
        else:
            rule.check(thr == exp, '%s:gate:%s' % (label, first), site_of(fr, item.node), '%s and what follows is read from protocol version %d on' % (first, exp),
                       'the reader takes `%s` from the wire only when the version is >= %d; the protocol carries it from version %d on (at version %d the field is on the wire but ignored)' % (first, thr, exp, exp))
    cmp_ = Comparator(width_of=width_resolver(repo, eng, ci))
    cmp_.seq(list(W), list(R))
    for n in cmp_.notes:
        rule.note('%s: %s' % (label, n))
    if cmp_.diffs:
        for d in cmp_.diffs:
            rule.violated(diff_key(label, d), diff_site(fw, fr, d), 'writer %s / reader %s disagree: %s' % (fw.qualname, fr.qualname, d.msg))
    else:
        rule.ok(label, fw.site, 'writer and reader agree on %d items' % cmp_.compared)
    cmp_.W, cmp_.R, cmp_.fw, cmp_.fr = W, R, fw, fr
    return cmp_


def rule_vs_spec(rule, repo, eng, ci, spec_items, wname='stream_serialize', rname='stream_deserialize', label=None, sides=('writer', 'reader')):
    label = label or ci.name
    try:
        fw, fr, W, R, notes = layouts_of(repo, eng, ci, wname, rname)
    except Undecided as e:
        rule.undecided(label, site_of(ci.module, e.node) if e.node is not None else ci.site, str(e))
        return
    import copy
    for side, items, fi in (('writer', W, fw), ('reader', R, fr)):
        if side not in sides:
            continue
        c = Comparator(width_of=width_resolver(repo, eng, ci), left=side, right='protocol')
        c.seq(list(items), copy.deepcopy(list(spec_items)))
        key = '%s:%s' % (label, side)
        if c.diffs:
            for d in c.diffs:
                rule.violated(diff_key(key, d), diff_site(fi, None, d) if d.w is not None else fi.site,
                              '%s %s deviates from the protocol layout: %s' % (side, fi.qualname, d.msg))
        else:
            rule.ok(key, fi.site, '%s matches the protocol layout (%d items)' % (side, c.compared))


# --------------------------------------------------------------------------------------------- stream-read discipline
def iter_calls(fnode):
    for n in walk_no_nested(fnode):
        if isinstance(n, ast.Call):
            yield n


def reader_functions(repo, files=None):
    """functions that consume a stream: a parameter named f/fd and 'deser' in the name, plus ser_read users"""
    out = []
    for fi in repo.functions.values():
        if files is not None and fi.module.relpath not in files:
            continue
        out.append(fi)
    return out


def ser_read_sites(repo, files=None):
    """every call of ser_read in the package -> (fi, call)"""
    out = []
    for fi in repo.functions.values():
        if files is not None and fi.module.relpath not in files:
            continue
        for c in iter_calls(fi.node):
            v = repo.fold(c.func, fi.module, cls=fi.cls)
            if isinstance(v, FuncRef) and v.info.qualname == 'bitcoin.core.serialize.ser_read':
                out.append((fi, c))
    return out


def raw_read_sites(repo, files=None):
    """X.read(...) calls on something that looks like a stream parameter, in stream-consuming functions"""
    out = []
    for fi in repo.functions.values():
        if files is not None and fi.module.relpath not in files:
            continue
        params = set(fi.params)
        for c in iter_calls(fi.node):
            if isinstance(c.func, ast.Attribute) and c.func.attr == 'read' and isinstance(c.func.value, ast.Name):
                nm = c.func.value.id
                if nm in params or nm in ('f', 'fd'):
                    out.append((fi, c))
    return out


def unpack_read_sites(repo, eng, files=None):
    """struct.unpack(fmt, ser_read(f, n)) / STRUCT.unpack(ser_read(f, n)) -> (fi, call, fmt, n_value)"""
    out = []
    for fi in repo.functions.values():
        if files is not None and fi.module.relpath not in files:
            continue
        for c in iter_calls(fi.node):
            try:
                sc = eng.struct_call(c, fi, 'unpack')
            except Undecided:
                if len(c.args) == 2 and isinstance(c.args[1], ast.Call) and norm(c.args[1].func).endswith('ser_read'):
                    out.append((fi, c, None, None, 'format does not fold'))
                continue
            if sc is None:
                continue
            kind, fmt = sc
            arg = c.args[1] if kind == 'mod' and len(c.args) > 1 else (c.args[0] if kind == 'obj' and c.args else None)
            if arg is None:
                continue
            try:
                n = eng.is_ser_read(arg, fi, arg.args[0].id if isinstance(arg, ast.Call) and arg.args and isinstance(arg.args[0], ast.Name) else 'f')
            except Undecided:
                n = None
            if n is None:
                out.append((fi, c, fmt, None, 'not-ser_read'))
                continue
            nv = repo.fold(n, fi.module, cls=fi.cls)
            if nv is UNKNOWN and isinstance(n, ast.Attribute) and n.attr == 'size':
                # CBloomFilter.__struct.size
                sv = None
                inner = n.value
                if isinstance(inner, ast.Attribute):
                    owner = repo.fold(inner.value, fi.module, cls=fi.cls)
                    if isinstance(owner, ClassRef):
                        sv = repo.class_attr_value(owner.info, owner.info.mangle(inner.attr) if fi.cls is None else fi.cls.mangle(inner.attr))
                if isinstance(sv, StructVal):
                    nv = _struct.calcsize(fmt_str(sv.fmt))
            out.append((fi, c, fmt, nv, None))
    return out


def rule_ser_read_body(rule, repo):
    """ser_read returns only after both the MAX_SIZE guard and the short-read guard"""
    fi = repo.get_function('bitcoin.core.serialize.ser_read')
    params = fi.params
    if len(params) != 2:
        rule.undecided('ser_read:signature', fi.site, 'ser_read no longer takes (stream, n)')
        return
    fparam, nparam = params
    max_size = repo.module_value(fi.module, 'MAX_SIZE')
    readvars = set()
    for n in walk_no_nested(fi.node):
        if isinstance(n, ast.Assign) and isinstance(n.value, ast.Call) and norm(n.value.func) == '%s.read' % fparam \
                and len(n.value.args) == 1 and norm(n.value.args[0]) == nparam:
            for t in n.targets:
                if isinstance(t, ast.Name):
                    readvars.add(t.id)

    def cond(test):
        return frozenset(), frozenset()

    def gen(stmt, facts):
        if isinstance(stmt, ast.If) and flow.always_raises(stmt.body):
            pass
        return facts
    # structural: walk the top-level statements, collect raising guards in order
    facts = set()
    raised = {}
    mf = flow.MustFlow()

    def g(stmt, f):
        return f
    # use cond(): when an `if T: raise` is passed, the fall-through path carries fact not(T)
    def cond2(test):
        return frozenset(), frozenset(['not:' + norm(test)])
    mf = flow.run_must(fi.node, cond=cond2)
    rets = [e for e in mf.exits if e[0] in ('return', 'fallthrough')]
    if not rets:
        rule.undecided('ser_read:returns', fi.site, 'ser_read has no normal return')
        return
    size_ok = trunc_ok = True
    for kind, node, fs in rets:
        has_size = any(_is_size_guard(t[4:], nparam, max_size, repo, fi) for t in fs if t.startswith('not:'))
        has_trunc = any(_is_trunc_guard(t[4:], nparam, readvars) for t in fs if t.startswith('not:'))
        ret_ok = node is not None and node.value is not None and norm(node.value) in readvars
        size_ok &= has_size
        trunc_ok &= has_trunc and ret_ok
    for n in ast.walk(fi.node):
        if isinstance(n, ast.Raise) and n.exc is not None:
            pass
    rule.check(size_ok, 'ser_read:max-size-guard', fi.site, 'every return passes `n > MAX_SIZE -> raise`',
               'a return of ser_read is not dominated by the MAX_SIZE guard (n > %r)' % (max_size,))
    rule.check(trunc_ok, 'ser_read:short-read-guard', fi.site, 'every return passes `len(r) < n -> raise` and returns the bytes read',
               'a return of ser_read is not dominated by the short-read guard or does not return the bytes read')
    # error classes of the two guards
    classes = {}
    for st in walk_no_nested(fi.node):
        if isinstance(st, ast.If) and flow.always_raises(st.body):
            for r in st.body:
                if isinstance(r, ast.Raise) and isinstance(r.exc, ast.Call):
                    classes[norm(st.test)] = norm(r.exc.func)
    for t, c in classes.items():
        if _is_trunc_guard(t, nparam, readvars):
            rule.check(c == 'SerializationTruncationError', 'ser_read:truncation-class', fi.site,
                       'short read raises SerializationTruncationError', 'short read raises %s, not the truncation error' % c)
        if _is_size_guard(t, nparam, max_size, repo, fi):
            v = repo.module_value(fi.module, c)
            base = repo.classes.get('bitcoin.core.serialize.SerializationError')
            ok = isinstance(v, ClassRef) and base is not None and repo.is_subclass(v.info, base)
            rule.check(ok, 'ser_read:size-class', fi.site, 'oversize read raises a SerializationError', 'oversize read raises %s' % c)


def _is_size_guard(text, nparam, max_size, repo, fi):
    try:
        t = ast.parse(text, mode='eval').body
    except SyntaxError:
        return False
    if isinstance(t, ast.Compare) and len(t.ops) == 1 and isinstance(t.left, ast.Name) and t.left.id == nparam:
        rhs = repo.fold(t.comparators[0], fi.module)
        if isinstance(t.ops[0], ast.Gt) and rhs == max_size:
            return True
        if isinstance(t.ops[0], ast.GtE) and isinstance(rhs, int) and isinstance(max_size, int) and rhs == max_size + 1:
            return True
    return False


def _is_trunc_guard(text, nparam, readvars):
    for rv in readvars:
        if text in ('len(%s) < %s' % (rv, nparam), 'len(%s) != %s' % (rv, nparam), '%s > len(%s)' % (nparam, rv)):
            return True
    return False


# --------------------------------------------------------------------------------------------- pack format ranges
def pack_sites(repo, eng, files=None):
    """struct.pack(fmt, v...) -> (fi, call, [(code, value_expr)])"""
    out = []
    for fi in repo.functions.values():
        if files is not None and fi.module.relpath not in files:
            continue
        for c in iter_calls(fi.node):
            try:
                sc = eng.struct_call(c, fi, 'pack')
            except Undecided:
                continue
            if sc is None:
                continue
            kind, fmt = sc
            vals = c.args[1:] if kind == 'mod' else c.args
            try:
                codes = split_fmt(fmt)
            except Undecided:
                continue
            if len(codes) != len(vals):
                continue
            out.append((fi, c, list(zip(codes, vals))))
    return out


def rule_pack_ranges(rule, repo, eng, field_ranges, files=None, only_fields=None):
    """every pack site of a wire field carries the field's full wire range (width, endianness, range)"""
    n = 0
    for fi, call, pairs in pack_sites(repo, eng, files):
        for code, v in pairs:
            if not isinstance(v, ast.Attribute):
                continue
            fld = v.attr
            if fld not in field_ranges or (only_fields and fld not in only_fields):
                continue
            # msg_version.nVersion / CAddress.nTime etc. are protocol fields of other structures: restrict to the
            # transaction/header objects by receiver shape (self.<f>, txTo.<f>, <x>.vin[i].<f>, i.<f>)
            width, endian, rng = field_ranges[fld]
            w, order, r = fmt_info(code)
            key = '%s:%s:%s' % (fi.qualname.replace('bitcoin.', ''), fld, norm(v))
            ok = (w == width and (order == endian) and r is not None and r[0] <= rng[0] and r[1] >= rng[1])
            n += 1
            rule.check(ok, key, site_of(fi, call), 'pack format %r carries %s in [%d, %d]' % (code, fld, rng[0], rng[1]),
                       'pack format %r for %s cannot carry the wire range [%d, %d] (%d-byte %s-endian): values the constructor accepts make struct.pack raise or change the bytes'
                       % (code, norm(v), rng[0], rng[1], width, 'little' if endian == '<' else 'big'))
    return n


# --------------------------------------------------------------------------------------------- call-time chain parameters
PARAM_GLOBALS = {('bitcoin', 'params'), ('bitcoin.core', 'coreparams')}


def _is_param_read(repo, m, node, cls=None):
    """is `node` a load of bitcoin.params / bitcoin.core.coreparams (through any alias)?"""
    if isinstance(node, ast.Attribute) and node.attr in ('params', 'coreparams') and isinstance(node.ctx, ast.Load):
        base = repo.fold(node.value, m, cls=cls)
        from .model import ModuleRef
        if isinstance(base, ModuleRef) and (base.info.name, node.attr) in PARAM_GLOBALS:
            return True
    if isinstance(node, ast.Name) and node.id in ('params', 'coreparams') and isinstance(node.ctx, ast.Load):
        d = repo.defining_module(m, node.id)
        if d is not None and (d[0].name, d[1]) in PARAM_GLOBALS:
            return True
    return False


def rule_call_time_params(rule, repo, files=None):
    """no read of the selected-chain globals in default arguments, decorators, class bodies or at module level,
    and no `from bitcoin import params` (which freezes the import-time object)"""
    n_body = 0
    for m in repo.modules.values():
        if files is not None and m.relpath not in files:
            continue
        # from-imports of the globals
        for s in ast.walk(m.tree):
            if isinstance(s, ast.ImportFrom):
                base = repo._abs_module(m, s.module, s.level)
                for a in s.names:
                    if (base, a.name) in PARAM_GLOBALS:
                        rule.violated('import:%s:%s' % (m.name, a.name), site_of(m, s),
                                      '`from %s import %s` binds the chain parameters selected at import time: SelectParams() rebinds the module global, this name keeps the old object' % (base, a.name))
        # which nodes are evaluated at import time?
        def scan(node, in_func, where):
            for child in ast.iter_child_nodes(node):
                if isinstance(child, (ast.FunctionDef, ast.AsyncFunctionDef, ast.Lambda)):
                    # defaults and decorators are evaluated at definition time
                    args = child.args
                    for d in list(args.defaults) + [x for x in args.kw_defaults if x is not None] + list(getattr(child, 'decorator_list', [])):
                        for x in ast.walk(d):
                            if _is_param_read(repo, m, x):
                                if in_func:
                                    continue
                                name = getattr(child, 'name', '<lambda>')
                                rule.violated('default:%s.%s:%s' % (m.name, name, norm(d)[:50]), site_of(m, d),
                                              'default argument/decorator of %s reads the chain parameters once, at import (`%s`): it does not follow SelectParams()' % (name, norm(d)[:60]))
                    body = child.body if isinstance(child.body, list) else [child.body]
                    for b in body:
                        scan_stmt(b, True, where)
                elif isinstance(child, ast.ClassDef):
                    for b in child.body:
                        scan_stmt(b, in_func, 'class body of %s' % child.name)
                else:
                    scan_stmt(child, in_func, where)

        def scan_stmt(node, in_func, where):
            nonlocal n_body
            if isinstance(node, (ast.FunctionDef, ast.AsyncFunctionDef, ast.ClassDef, ast.Lambda)):
                holder = ast.Module(body=[node], type_ignores=[])
                scan(holder, in_func, where)
                return
            if _is_param_read(repo, m, node):
                if in_func:
                    n_body += 1
                else:
                    rule.violated('import-time:%s:%s' % (m.name, norm(node)), site_of(m, node),
                                  '%s reads the chain parameters at import time (%s): the value does not follow SelectParams()' % (where, norm(node)))
            scan(node, in_func, where)
        scan(m.tree, False, 'module level')
        # a memoised function that reads the chain parameters freezes, per argument, the chain selected at its first call
        for fn in ast.walk(m.tree):
            if isinstance(fn, (ast.FunctionDef, ast.AsyncFunctionDef)):
                memo = [d for d in fn.decorator_list if 'cache' in (norm(d.func) if isinstance(d, ast.Call) else norm(d)).lower()]
                if memo and any(_is_param_read(repo, m, x) for b in fn.body for x in ast.walk(b)):
                    rule.violated('memoised:%s.%s' % (m.name, fn.name), site_of(m, fn),
                                  '%s is memoised (%s) and reads the selected-chain parameters: a result computed under one chain is served after SelectParams() picked another' % (fn.name, norm(memo[0])[:40]))
        # a chain class named directly inside a function (`bitcoin.MainParams.BECH32_HRP`) is one chain for ever: only
        # SelectParams and the module-level default may name the classes
        chain_classes = {c.name for c in repo.classes.values() if c.name.endswith('Params') and c.module.name in ('bitcoin', 'bitcoin.core')}
        for fn in ast.walk(m.tree):
            if isinstance(fn, (ast.FunctionDef, ast.AsyncFunctionDef)) and fn.name not in ('SelectParams', '_SelectCoreParams'):
                for x in ast.walk(fn):
                    if isinstance(x, ast.Attribute) and isinstance(x.ctx, ast.Load) and x.attr.isupper():
                        base = x.value
                        bn = base.attr if isinstance(base, ast.Attribute) else (base.id if isinstance(base, ast.Name) else None)
                        if isinstance(base, ast.Call):
                            bf = base.func
                            bn = bf.attr if isinstance(bf, ast.Attribute) else (bf.id if isinstance(bf, ast.Name) else None)
                        if bn in chain_classes:
                            rule.violated('hard-wired:%s.%s:%s' % (m.name, fn.name, norm(x)), site_of(m, x),
                                          '%s reads `%s`: the parameter of one fixed chain, whatever SelectParams() selected' % (fn.name, norm(x)), sure=True)
    rule.ok('reads-in-function-bodies', '', '%d reads of the selected-chain globals, all evaluated at call time' % n_body)
    rule.note('%d call-time reads' % n_body)
    return n_body


# ------------------------------------------------------------------------------------------------ small-function shapes
def _boolish(e):
    if isinstance(e, (ast.Compare, ast.BoolOp)):
        return True
    if isinstance(e, ast.UnaryOp) and isinstance(e.op, ast.Not):
        return True
    if isinstance(e, ast.Constant) and isinstance(e.value, bool):
        return True
    if isinstance(e, ast.Call):
        f = e.func
        name = f.id if isinstance(f, ast.Name) else (f.attr if isinstance(f, ast.Attribute) else '')
        return name in ('isinstance', 'bool', 'all', 'any', 'hasattr', 'callable') or name.startswith(('is_', 'has_', 'Is'))
    return False


def _neg(e):
    if isinstance(e, ast.UnaryOp) and isinstance(e.op, ast.Not):
        return e.operand
    return ast.copy_location(ast.UnaryOp(op=ast.Not(), operand=e), e)


def _ifexp(test, a, b):
    ta = isinstance(a, ast.Constant) and a.value is True
    fa = isinstance(a, ast.Constant) and a.value is False
    tb = isinstance(b, ast.Constant) and b.value is True
    fb = isinstance(b, ast.Constant) and b.value is False
    if _boolish(test):
        if ta and fb:
            return test
        if fa and tb:
            return _neg(test)
        if fb and _boolish(a):
            return ast.copy_location(ast.BoolOp(op=ast.And(), values=[test, a]), test)
        if ta and _boolish(b):
            return ast.copy_location(ast.BoolOp(op=ast.Or(), values=[test, b]), test)
        if fa and _boolish(b):
            return ast.copy_location(ast.BoolOp(op=ast.And(), values=[_neg(test), b]), test)
        if tb and _boolish(a):
            return ast.copy_location(ast.BoolOp(op=ast.Or(), values=[_neg(test), a]), test)
    return ast.copy_location(ast.IfExp(test=test, body=a, orelse=b), test)


def _subst_locals(e, env):
    if not env:
        return e

    class T(ast.NodeTransformer):
        def visit_Name(self, n):
            if isinstance(n.ctx, ast.Load) and n.id in env:
                return ast.parse(ast.unparse(env[n.id]), mode='eval').body
            return n
    return T().visit(ast.parse(ast.unparse(e), mode='eval').body)


def return_expr(fi_or_node, inline_locals=False):
    """The function as ONE returned expression when its body is a tree of if/return (guard clauses, if/else returns,
    `if c: return False` / `return True`): spellings of one value.  With inline_locals, plain `name = expr` statements
    in between are substituted into what follows (the caller vouches that the right-hand sides are pure).
    None when the body does anything else."""
    node = getattr(fi_or_node, 'node', fi_or_node)
    body = [s for s in node.body if not (isinstance(s, ast.Expr) and isinstance(s.value, ast.Constant))]

    def conv(stmts, env=None):
        env = dict(env or {})
        while inline_locals and stmts and isinstance(stmts[0], ast.Assign) and len(stmts[0].targets) == 1:
            t0 = stmts[0].targets[0]
            if isinstance(t0, ast.Name):
                env[t0.id] = _subst_locals(stmts[0].value, env)
            elif isinstance(t0, (ast.Tuple, ast.List)) and all(isinstance(x, ast.Name) for x in t0.elts) and not isinstance(stmts[0].value, (ast.Tuple, ast.List)):
                # a, b = X: a is X[0], b is X[1] (X pure, as the caller vouches)
                v0 = _subst_locals(stmts[0].value, env)
                for k_, x in enumerate(t0.elts):
                    sub = ast.Subscript(value=ast.parse(ast.unparse(v0), mode='eval').body, slice=ast.Constant(value=k_), ctx=ast.Load())
                    env[x.id] = ast.copy_location(sub, stmts[0])
            else:
                break
            stmts = stmts[1:]
        if env:
            r_ = conv_plain(stmts, env)
            return r_
        return conv_plain(stmts, env)

    def conv_plain(stmts, env):
        if not stmts:
            return None
        s = stmts[0]
        if env and isinstance(s, ast.Return):
            return _subst_locals(s.value, env) if s.value is not None else ast.Constant(value=None)
        if env and isinstance(s, ast.If):
            a = conv(list(s.body), env)
            if a is None:
                return None
            b = conv(list(s.orelse), env) if s.orelse else conv(list(stmts[1:]), env)
            if b is None:
                return None
            return _ifexp(_subst_locals(s.test, env), a, b)
        if isinstance(s, ast.Return):
            return s.value if s.value is not None else ast.copy_location(ast.Constant(value=None), s)
        if isinstance(s, ast.If):
            a = conv(list(s.body))
            if a is None:
                return None
            b = conv(list(s.orelse) + list(stmts[1:])) if not s.orelse or True else None
            if s.orelse:
                b = conv(list(s.orelse))
                if b is None:
                    return None
            else:
                b = conv(list(stmts[1:]))
                if b is None:
                    return None
            return _ifexp(s.test, a, b)
        return None
    e = conv(body)
    if e is not None:
        ast.fix_missing_locations(e)
    return e


def local_defs(fi):
    """single-definition locals of a function: name -> value AST (tuple assignments split element-wise)"""
    from .model import walk_no_nested
    count = {}
    val = {}
    for n in walk_no_nested(fi.node):
        if isinstance(n, ast.Assign) and len(n.targets) == 1:
            t = n.targets[0]
            if isinstance(t, ast.Name):
                count[t.id] = count.get(t.id, 0) + 1
                val[t.id] = n.value
            elif isinstance(t, (ast.Tuple, ast.List)):
                for k, e in enumerate(t.elts):
                    if isinstance(e, ast.Name):
                        count[e.id] = count.get(e.id, 0) + 1
                        if isinstance(n.value, (ast.Tuple, ast.List)) and len(n.value.elts) == len(t.elts):
                            val[e.id] = n.value.elts[k]
                        else:
                            count[e.id] += 1
        elif isinstance(n, (ast.AugAssign,)) and isinstance(n.target, ast.Name):
            count[n.target.id] = count.get(n.target.id, 0) + 2
        elif isinstance(n, (ast.For, ast.comprehension)):
            for e in ast.walk(n.target):
                if isinstance(e, ast.Name):
                    count[e.id] = count.get(e.id, 0) + 2
    params = set(fi.params)
    return {k: v for k, v in val.items() if count.get(k) == 1 and k not in params}


def path_defs(path, keep=()):
    """definitions in force at the end of a traced path: name -> value AST (the last plain assignment on the path;
    a name that is assigned from itself, e.g. b = b.lower(), is left alone)"""
    out = {}
    for s in path.stmts():
        if isinstance(s, ast.Assign) and len(s.targets) == 1:
            t = s.targets[0]
            pairs = []
            if isinstance(t, ast.Name):
                pairs = [(t.id, s.value)]
            elif isinstance(t, (ast.Tuple, ast.List)) and isinstance(s.value, (ast.Tuple, ast.List)) and len(t.elts) == len(s.value.elts):
                pairs = [(e.id, v) for e, v in zip(t.elts, s.value.elts) if isinstance(e, ast.Name)]
            for name, v in pairs:
                if name in keep:
                    out.pop(name, None)
                    continue
                if any(isinstance(n, ast.Name) and n.id == name for n in ast.walk(v)):
                    # x = f(x): the new value in terms of the previous definition, when there is one
                    prev = out.get(name)
                    if prev is None:
                        out.pop(name, None)
                        continue

                    class _S(ast.NodeTransformer):
                        def visit_Name(self, n, name=name, prev=prev):
                            if n.id == name and isinstance(n.ctx, ast.Load):
                                return ast.parse(ast.unparse(prev), mode='eval').body
                            return n
                    v = ast.fix_missing_locations(_S().visit(ast.parse(ast.unparse(v), mode='eval').body))
                out[name] = v
        elif isinstance(s, ast.AugAssign) and isinstance(s.target, ast.Name):
            prev = out.get(s.target.id)
            if prev is not None:
                out[s.target.id] = ast.BinOp(left=prev, op=s.op, right=s.value)
            else:
                out.pop(s.target.id, None)
    return out


def resolved(fi, expr, repo=None, depth=6, defs=None):
    """`expr` with the function's single-definition locals substituted by their definitions (transitively), and
    references to the library's double-SHA256 helper spelled `Hash`"""
    defs = local_defs(fi) if defs is None else defs

    class T(ast.NodeTransformer):
        def visit_Name(self, n):
            if isinstance(n.ctx, ast.Load) and n.id in defs:
                return ast.parse(ast.unparse(defs[n.id]), mode='eval').body
            return n
    e = ast.parse(ast.unparse(expr), mode='eval').body
    for _ in range(depth):
        before = ast.unparse(e)
        e = T().visit(e)
        e = ast.parse(ast.unparse(e), mode='eval').body
        if ast.unparse(e) == before:
            break
    if repo is not None:
        from .model import FuncRef

        class H(ast.NodeTransformer):
            def visit_Call(self, n):
                self.generic_visit(n)
                v = repo.fold(n.func, fi.module, cls=fi.cls)
                if isinstance(v, FuncRef) and v.info.qualname in ('bitcoin.core.serialize.Hash', 'bitcoin.core.serialize.Hash160'):
                    n.func = ast.Name(id=v.info.name, ctx=ast.Load())
                return n
        e = ast.fix_missing_locations(H().visit(e))
    return e


def list_value(fi, name, upto=None):
    """The list a local ends up holding when it is built by `name = []` / `name = [..]`, `for v in S: name.append(E)`,
    `name.append(E)`, `name += L` / `name.extend(L)` at the top level of the function: one list expression (AST), in the
    comprehension spelling.  None when the local is built any other way."""
    cur = None
    for s in fi.node.body:
        if upto is not None and s is upto:
            break
        uses = any(isinstance(n, ast.Name) and n.id == name for n in ast.walk(s))
        if not uses:
            continue
        if isinstance(s, ast.Assign) and len(s.targets) == 1 and isinstance(s.targets[0], ast.Name) and s.targets[0].id == name:
            if any(isinstance(n, ast.Name) and n.id == name for n in ast.walk(s.value)):
                return None
            cur = s.value
            continue
        if cur is None:
            return None
        add = None
        if isinstance(s, ast.Expr) and isinstance(s.value, ast.Call) and isinstance(s.value.func, ast.Attribute) and isinstance(s.value.func.value, ast.Name) \
                and s.value.func.value.id == name and len(s.value.args) == 1:
            if s.value.func.attr == 'append':
                add = ast.List(elts=[s.value.args[0]], ctx=ast.Load())
            elif s.value.func.attr == 'extend':
                add = s.value.args[0]
        elif isinstance(s, ast.AugAssign) and isinstance(s.target, ast.Name) and s.target.id == name and isinstance(s.op, ast.Add):
            add = s.value
        elif isinstance(s, ast.For) and not s.orelse and len(s.body) == 1:
            b = s.body[0]
            if isinstance(b, ast.Expr) and isinstance(b.value, ast.Call) and isinstance(b.value.func, ast.Attribute) and b.value.func.attr == 'append' \
                    and isinstance(b.value.func.value, ast.Name) and b.value.func.value.id == name and len(b.value.args) == 1:
                add = ast.ListComp(elt=b.value.args[0], generators=[ast.comprehension(target=s.target, iter=s.iter, ifs=[], is_async=0)])
        elif isinstance(s, ast.Return):
            break
        if add is None:
            return None
        if isinstance(cur, ast.List) and not cur.elts:
            cur = add
        else:
            cur = ast.BinOp(left=cur, op=ast.Add(), right=add)
    if cur is not None:
        cur = ast.parse(ast.unparse(ast.fix_missing_locations(cur)), mode='eval').body
    return cur


def _bound_renamed(e):
    """comprehension variables renamed positionally (_v0, _v1, ..) so that spellings of the bound name do not matter"""
    e = ast.parse(ast.unparse(e), mode='eval').body
    k = [0]

    def go(node):
        for n in ast.walk(node):
            if isinstance(n, (ast.ListComp, ast.GeneratorExp, ast.SetComp)):
                for g in n.generators:
                    if isinstance(g.target, ast.Name) and not g.target.id.startswith('_v'):
                        old, new = g.target.id, '_v%d' % k[0]
                        k[0] += 1
                        for x in ast.walk(n):
                            if isinstance(x, ast.Name) and x.id == old:
                                x.id = new
    go(e)
    return e


def value_match(repo, fi, expr, ref_text, defs=None):
    """'same' | 'near' | 'other': is the value `expr` (locals resolved) the reference expression?  same = equal arithmetic
    normal forms; near = built from the same names (a recognised variation: VIOLATED); other = cannot tell (UNDECIDED)"""
    from .rules import canon_arith
    if expr is None:
        return 'other'
    a = _bound_renamed(resolved(fi, expr, repo, defs=defs))
    b = _bound_renamed(resolved(fi, ast.parse(ref_text, mode='eval').body, repo, defs=defs))
    if canon_arith(a) == canon_arith(b):
        return 'same'

    def names(e):
        return sorted({n.id for n in ast.walk(e) if isinstance(n, ast.Name)} | {n.attr for n in ast.walk(e) if isinstance(n, ast.Attribute)})
    return 'near' if names(a) == names(b) else 'other'


def verdict3(rule, key, site, repo, fi, expr, ref_text, what):
    m = value_match(repo, fi, expr, ref_text)
    shown = ast.unparse(resolved(fi, expr, repo))[:140] if expr is not None else None
    if m == 'same':
        rule.ok(key, site, '%s: `%s`' % (what, ref_text))
    elif m == 'near':
        rule.violated(key, site, '%s is `%s`; reference: `%s`' % (what, shown, ref_text))
    else:
        rule.undecided(key, site, '%s is written as `%s`, not recognisably the reference `%s`' % (what, shown, ref_text))
    return m


def returned_value(fi, skip=()):
    """the single returned expression of a function (ignoring returns whose text is in `skip`); a returned local built
    as a list by appends is given in its comprehension spelling"""
    from .model import walk_no_nested, norm
    rets = [n for n in walk_no_nested(fi.node) if isinstance(n, ast.Return) and n.value is not None and norm(n.value) not in skip]
    if len(rets) != 1:
        return None
    v = rets[0].value
    if isinstance(v, ast.Name):
        lv = list_value(fi, v.id)
        if lv is not None:
            return lv
    return v


def const_index_instances(r, repo, funcs, skip=(), what='a shorter value raises IndexError', only=None):
    """GUARD rule instances: every `x[k]` (constant k, x a parameter or self) in `funcs` is dominated by tests that make
    len(x) > k on every path - decided by the guard algebra over the path condition (escape.implied_at), with a bare
    sequence name in a boolean position read as len(x) > 0.  A counter-cell found by the algebra is a fact about the
    code as it stands: the instance is reported at any structural distance."""
    from .escape import implied_at
    n = 0
    for f in funcs:
        for x in walk_no_nested(f.node):
            if not (isinstance(x, ast.Subscript) and isinstance(x.ctx, ast.Load) and isinstance(x.value, ast.Name) and x.value.id in f.params):
                continue
            if x.value.id in skip or (only is not None and x.value.id not in only):
                continue
            sl = x.slice
            k = None
            if isinstance(sl, ast.Constant) and isinstance(sl.value, int) and not isinstance(sl.value, bool):
                k = sl.value
            elif isinstance(sl, ast.UnaryOp) and isinstance(sl.op, ast.USub) and isinstance(sl.operand, ast.Constant) and isinstance(sl.operand.value, int):
                k = -sl.operand.value
            if k is None:
                continue
            n += 1
            need = k + 1 if k >= 0 else -k
            key = '%s:%s' % (f.qualname.replace('bitcoin.core.', '').replace('bitcoin.', ''), norm(x))
            try:
                v = implied_at(repo, f, x, 'len(%s) >= %d' % (x.value.id, need), truthy_len={x.value.id})
            except Exception:  # the guard algebra does not model a test on this path
                v = None
            if v is True:
                r.ok(key, site_of(f, x), 'len(%s) >= %d on every path to it' % (x.value.id, need))
            elif v is False:
                r.violated(key, site_of(f, x), '`%s` in %s is reached with len(%s) < %d possible (the tests before it do not exclude it): %s'
                           % (norm(x), f.qualname, x.value.id, need, what), sure=True)
            else:
                r.undecided(key, site_of(f, x), 'whether `%s` is guarded is not decided by the guard algebra' % norm(x))
    return n


def fix_length(e, name, n):
    """`e` with the subscripts of the sequence `name`, known to have exactly n elements at this point, written with
    explicit non-negative bounds: x[a:] -> x[a:n], x[-k] -> x[n-k], x[:-k] -> x[0:n-k] (so that spellings which differ only
    because the length is known read alike)"""
    e = ast.parse(ast.unparse(e), mode='eval').body

    def pos(b, default):
        if b is None:
            return ast.Constant(value=default)
        if isinstance(b, ast.UnaryOp) and isinstance(b.op, ast.USub) and isinstance(b.operand, ast.Constant) and isinstance(b.operand.value, int):
            return ast.Constant(value=n - b.operand.value)
        if isinstance(b, ast.BinOp) and isinstance(b.op, ast.Sub) and norm(b.left) == 'len(%s)' % name and isinstance(b.right, ast.Constant):
            return ast.Constant(value=n - b.right.value)
        if isinstance(b, ast.Call) and norm(b) == 'len(%s)' % name:
            return ast.Constant(value=n)
        return b
    for x in ast.walk(e):
        if isinstance(x, ast.Subscript) and isinstance(x.value, ast.Name) and x.value.id == name:
            if isinstance(x.slice, ast.Slice):
                if x.slice.step is None:
                    lo = pos(x.slice.lower, 0)
                    x.slice.lower = None if (isinstance(lo, ast.Constant) and lo.value == 0) else lo
                    x.slice.upper = pos(x.slice.upper, n)
            else:
                x.slice = pos(x.slice, 0)
    return ast.fix_missing_locations(e)


def catching_handler(repo, fi, node, exc_qualname):
    """the `except` clause (of a try statement enclosing `node` in fi) that would catch an exception of class
    `exc_qualname` raised at `node` and not let it through unchanged; None if there is none.  A handler lets it through
    when its body ends in a bare `raise`."""
    exc = repo.classes.get(exc_qualname)
    cur = getattr(node, '_parent', None)
    child = node
    while cur is not None and cur is not fi.node:
        if isinstance(cur, ast.Try) and any(child is s or any(child is x for x in ast.walk(s)) for s in cur.body):
            for h in cur.handlers:
                types = [h.type] if h.type is not None and not isinstance(h.type, ast.Tuple) else (list(h.type.elts) if h.type is not None else [None])
                for t in types:
                    catches = False
                    if t is None or norm(t) in ('Exception', 'BaseException'):
                        catches = True
                    else:
                        v = repo.fold(t, fi.module, cls=fi.cls)
                        hc = v.info if isinstance(v, ClassRef) else None
                        if hc is not None and exc is not None and (hc is exc or repo.is_subclass(exc, hc)):
                            catches = True
                        elif hc is None and exc is not None and norm(t).split('.')[-1] in [getattr(c, 'name', str(c)) for c in repo.mro(exc)]:
                            catches = True
                    if catches:
                        through = h.body and isinstance(h.body[-1], ast.Raise) and h.body[-1].exc is None
                        if not through:
                            return h
        child = cur
        cur = getattr(cur, '_parent', None)
    return None


def retag(ctx, rid, fn, *args, title=None):
    """run another property's rule function as an obligation of this property under its own id (every rule it creates is
    renamed rid, rid+'b', ...)"""
    n0 = len(ctx.rules)
    fn(ctx, *args)
    for k, r in enumerate(ctx.rules[n0:]):
        new = rid if k == 0 else '%s%s' % (rid, chr(ord('a') + k))
        r.id = new
        if title and k == 0:
            r.title = title + ' [' + r.title + ']'
        for i in r.instances:
            i.rule = new
    return ctx.rules[n0:]


def inlined_away(repo, fi):
    """a function the confirmed tree does not have, which the desugaring pre-pass inlined into its callers and which no
    remaining call names: its body is analysed where it was inlined, not as a function of its own"""
    known = getattr(repo, 'known_functions', None)
    if known is None or fi.qualname in known:
        return False
    if not any(('inlined' in l_ or 'spliced' in l_) and ('helper %s ' % fi.qualname) in l_ for l_ in getattr(repo, 'desugar_log', []) or []):
        return False
    memo = getattr(repo, '_called_names', None)
    if memo is None:
        memo = set()
        for f2 in repo.functions.values():
            for c in iter_calls(f2.node):
                if isinstance(c.func, ast.Attribute):
                    memo.add(c.func.attr)
                elif isinstance(c.func, ast.Name):
                    memo.add(c.func.id)
        repo._called_names = memo
    return fi.name not in memo


def rule_flag_defaults(ctx, repo, rid, need_empty):
    """the verification-flag parameters default to an (empty) collection: the interpreter only ever asks `X in flags`, so a
    default that is not a collection (None, 0) raises TypeError at the first flag test of every caller that omits the
    argument; a non-empty default switches optional rules on for them"""
    from .model import UNKNOWN
    r = ctx.rule(rid, 'default of the verification flags: a collection%s (the interpreter asks `X in flags`)' % (', and an empty one' if need_empty else ''), engine='CONST', floor=3)
    for q in ('bitcoin.core.scripteval.EvalScript', 'bitcoin.core.scripteval._EvalScript', 'bitcoin.core.scripteval.VerifyScript'):
        fi = repo.functions.get(q)
        key = 'default:%s:flags' % q.rsplit('.', 1)[-1]
        if fi is None or 'flags' not in fi.params:
            r.undecided(key, fi.site if fi else '', 'no parameter `flags`')
            continue
        d = fi.defaults().get('flags')
        if d is None:
            r.ok(key, fi.site, 'no default: every caller passes the flags')
            continue
        v = repo.fold(d, fi.module, cls=fi.cls)
        txt = ast.unparse(d)
        if v is UNKNOWN and txt in ('frozenset()', 'set()', 'tuple()', 'list()', 'dict()'):
            v = ()
        if v is UNKNOWN:
            r.undecided(key, fi.site, 'the default `%s` does not fold to a constant' % txt[:40])
        elif isinstance(v, (tuple, list, set, frozenset, dict)):
            if len(v) == 0 or not need_empty:
                r.ok(key, fi.site, 'flags=%s' % txt)
                ctx.explain(fi, fi.node, '%s: `%s` is a%s collection' % (rid, txt, 'n empty' if len(v) == 0 else ''), part='default:flags')
            else:
                r.violated(key, fi.site, '%s: the default flag set is `%s`: a caller that passes no flags gets optional verification rules switched on, and scripts the consensus rules accept are refused'
                           % (fi.name, txt), sure=True)
        elif isinstance(v, (str, bytes)):
            r.undecided(key, fi.site, 'the default `%s` is a string' % txt[:40])
        elif any(isinstance(n, ast.Name) and n.id == 'flags' and isinstance(n.ctx, ast.Store) for n in ast.walk(fi.node)):
            r.undecided(key, fi.site, 'the default `%s` is not a collection, and %s rebinds `flags` before using it: what it uses instead was not decided' % (txt[:40], fi.name))
        else:
            r.violated(key, fi.site, '%s: the default of `flags` is `%s`, which is not a collection: the first `X in flags` of a call without flags raises TypeError, an exception outside the validation-error family'
                       % (fi.name, txt), sure=True)


def rule_defaults(rule, repo, items):
    """items: [(qualname, parameter, expected value, what a caller relying on the default gets otherwise)].  A default is
    part of the function's behaviour for every caller that omits the argument."""
    from .model import UNKNOWN
    for q, param, want, why in items:
        fi = repo.functions.get(q)
        key = 'default:%s:%s' % (q.rsplit('.', 2)[-2] + '.' + q.rsplit('.', 1)[-1] if q.count('.') > 2 else q.rsplit('.', 1)[-1], param)
        if fi is None:
            rule.undecided(key, '', 'function %s not found' % q)
            continue
        d = fi.defaults().get(param)
        if d is None:
            if param in fi.params:
                rule.violated(key, fi.site, '%s: parameter `%s` no longer has a default (%r expected): callers that omit it fail' % (fi.name, param, want), sure=True)
            else:
                rule.undecided(key, fi.site, '%s has no parameter `%s`' % (fi.name, param))
            continue
        v = repo.fold(d, fi.module, cls=fi.cls)
        if v is UNKNOWN:
            rule.undecided(key, fi.site, 'the default of `%s` (%s) does not fold to a constant' % (param, ast.unparse(d)[:40]))
        elif type(v) is type(want) and v == want:
            rule.ok(key, fi.site, '%s=%r' % (param, want))
        else:
            rule.violated(key, fi.site, '%s: the default of `%s` is %r, the confirmed behaviour needs %r: %s' % (fi.name, param, v if not isinstance(v, bytes) or len(v) < 12 else '%d bytes' % len(v),
                          want if not isinstance(want, bytes) or len(want) < 12 else '%d zero bytes' % len(want), why), sure=True)
