"""RESTORE: the last step of the DESUGAR pre-pass - small respellings are mapped back onto the statement the inventory knows.

The rules know the confirmed tree's spelling of every statement.  A maintainer's small edit very often changes only the
spelling: `x > n - 1` for `x >= n`, `not a < b`, De Morgan, a chained comparison, `0x1f` for `31`, `(1 << 16) - 1`,
`s[0:4]` for `s[:4]`, `bytes(32)`, a keyword argument passed by position, `else` dropped after `return`, two nested `if`s
for one `and`.  None of these may produce a verdict, and none should cost an UNDECIDED either.

For every statement of a known function whose text the inventory does not have, RESTORE computes a *normal form* - constants
folded, slices and comparisons canonical (rules.canon_text: linear normal form of guards), integer expressions canonical
(rules.canon_arith), calls positional, a handful of standard-library synonyms unified - and, if an inventory statement of the
same function that is not otherwise accounted for has the same normal form, replaces the statement by the inventory's
own AST.  Guards that still differ are compared with the decision procedure rules.equiv and replaced when it proves them
equivalent.  Three structural normalisations are inventory-directed as well: an `else` after a branch that always leaves
is restored / removed according to what the inventory's `if` looked like, two nested `if`s are merged when the
conjunction is a known guard, and a conjunction is split when both halves are known guards.

What RESTORE cannot map back stays as it is, and the rules (and the structural distance) see it as a change.  Nothing here
decides a property: the normal form is a key for finding the statement's confirmed spelling, and every rewrite in it is
an identity on the values the code computes (integers, bytes, lists of them).
"""
import ast
import copy
from collections import Counter

from .model import norm

_BIN = {ast.Add: lambda a, b: a + b, ast.Sub: lambda a, b: a - b, ast.Mult: lambda a, b: a * b, ast.FloorDiv: lambda a, b: a // b,
        ast.Mod: lambda a, b: a % b, ast.LShift: lambda a, b: a << b, ast.RShift: lambda a, b: a >> b, ast.BitAnd: lambda a, b: a & b,
        ast.BitOr: lambda a, b: a | b, ast.BitXor: lambda a, b: a ^ b, ast.Pow: lambda a, b: a ** b}


def _clone(n):
    """a copy of an expression / statement without the parent links the model adds (deepcopy would follow them through
    the whole module)"""
    if isinstance(n, ast.expr):
        return ast.parse(ast.unparse(n), mode='eval').body
    if isinstance(n, ast.stmt):
        return ast.parse(ast.unparse(n)).body[0]
    return copy.deepcopy(n)


def _is_int(v):
    return isinstance(v, int) and not isinstance(v, bool)


def _const(v, like):
    return ast.copy_location(ast.Constant(value=v), like)


class NF(ast.NodeTransformer):
    """expression-level normal form (bottom-up)"""

    def __init__(self, signature=None):
        self.signature = signature or (lambda call: None)

    # ---- constants
    def visit_BinOp(self, n):
        n = self.generic_visit(n)
        l, r = n.left, n.right
        if isinstance(n.op, ast.Mod) and isinstance(l, ast.Constant) and isinstance(l.value, str) and isinstance(r, ast.Tuple) and len(r.elts) == 1 \
                and not isinstance(r.elts[0], (ast.Tuple, ast.Starred)):
            n.right = r = r.elts[0]
        if isinstance(l, ast.Constant) and isinstance(r, ast.Constant):
            a, b = l.value, r.value
            try:
                if _is_int(a) and _is_int(b) and type(n.op) in _BIN:
                    if isinstance(n.op, (ast.FloorDiv, ast.Mod)) and b == 0:
                        return n
                    if isinstance(n.op, ast.Pow) and (b < 0 or b > 600 or abs(a) > 1 << 64):
                        return n
                    if isinstance(n.op, ast.LShift) and (b < 0 or b > 600):
                        return n
                    if isinstance(n.op, ast.RShift) and b < 0:
                        return n
                    return _const(_BIN[type(n.op)](a, b), n)
                if isinstance(a, bytes) and isinstance(b, bytes) and isinstance(n.op, ast.Add):
                    return _const(a + b, n)
                if isinstance(a, str) and isinstance(b, str) and isinstance(n.op, ast.Add):
                    return _const(a + b, n)
                if isinstance(n.op, ast.Mult):
                    for x, y in ((a, b), (b, a)):
                        if isinstance(x, (bytes, str)) and _is_int(y) and 0 <= y * max(1, len(x)) <= 4096:
                            return _const(x * y, n)
            except Exception:
                return n
        # [c, ...] * k with literal k
        if isinstance(n.op, ast.Mult):
            for x, y in ((l, r), (r, l)):
                if isinstance(x, ast.List) and isinstance(y, ast.Constant) and _is_int(y.value) and 0 <= y.value * max(1, len(x.elts)) <= 64:
                    return ast.copy_location(ast.List(elts=[_clone(e) for _ in range(y.value) for e in x.elts], ctx=ast.Load()), n)
        return n

    # ---- message formatting: an f-string is the %-format with the same conversions ({x!r} = %r, {x!s} = {x} = %s,
    # {x:d} = %d, {x:x} = %x, {x:02x} = %02x); str.format with positional {} likewise
    def visit_JoinedStr(self, n):
        n = self.generic_visit(n)
        fmt, args = '', []
        for v in n.values:
            if isinstance(v, ast.Constant) and isinstance(v.value, str):
                fmt += v.value.replace('%', '%%')
            elif isinstance(v, ast.FormattedValue):
                spec = ''
                if v.format_spec is not None:
                    if not (isinstance(v.format_spec, ast.JoinedStr) and all(isinstance(x, ast.Constant) for x in v.format_spec.values)):
                        return n
                    spec = ''.join(str(x.value) for x in v.format_spec.values)
                if v.conversion == ord('r') and not spec:
                    fmt += '%r'
                elif v.conversion in (-1, ord('s')) and not spec:
                    fmt += '%s'
                elif v.conversion == -1 and len(spec) >= 1 and spec[-1] in 'dxXo' and (spec[:-1] == '' or spec[:-1].isdigit()):
                    fmt += '%' + spec
                else:
                    return n
                args.append(v.value)
            else:
                return n
        if not args:
            return _const(fmt.replace('%%', '%'), n)
        right = args[0] if len(args) == 1 and not isinstance(args[0], ast.Tuple) else ast.Tuple(elts=args, ctx=ast.Load())
        out = ast.BinOp(left=ast.Constant(value=fmt), op=ast.Mod(), right=right)
        for x in ast.walk(out):
            if not hasattr(x, 'lineno'):
                ast.copy_location(x, n)
        return ast.copy_location(out, n)

    def visit_UnaryOp(self, n):
        n = self.generic_visit(n)
        if isinstance(n.operand, ast.Constant) and _is_int(n.operand.value):
            if isinstance(n.op, ast.USub):
                return n  # keep -k as written (ast.unparse prints a negative Constant the same way)
            if isinstance(n.op, ast.Invert):
                return _const(~n.operand.value, n)
            if isinstance(n.op, ast.UAdd):
                return n.operand
        return n

    # ---- calls
    def visit_Call(self, n):
        n = self.generic_visit(n)
        f = n.func
        name = norm(f)
        # bytes(...) of literals
        if name == 'bytes' and not n.keywords:
            if not n.args:
                return _const(b'', n)
            if len(n.args) == 1:
                a = n.args[0]
                if isinstance(a, ast.Constant) and _is_int(a.value) and 0 <= a.value <= 4096:
                    return _const(bytes(a.value), n)
                if isinstance(a, (ast.List, ast.Tuple)) and all(isinstance(e, ast.Constant) and _is_int(e.value) and 0 <= e.value < 256 for e in a.elts):
                    return _const(bytes(e.value for e in a.elts), n)
                if isinstance(a, ast.Tuple):
                    n.args[0] = ast.copy_location(ast.List(elts=a.elts, ctx=ast.Load()), a)
                if isinstance(a, ast.Call) and norm(a.func) == 'reversed' and len(a.args) == 1:
                    return ast.copy_location(ast.Subscript(value=a.args[0], slice=ast.Slice(lower=None, upper=None, step=ast.UnaryOp(op=ast.USub(), operand=ast.Constant(value=1))),
                                                           ctx=ast.Load()), n)
        # <int literal>.to_bytes(n, order)  /  int.from_bytes(<bytes literal>, order)
        if isinstance(f, ast.Attribute) and f.attr == 'to_bytes' and isinstance(f.value, ast.Constant) and _is_int(f.value.value) and len(n.args) == 2 \
                and not n.keywords and all(isinstance(a, ast.Constant) for a in n.args) and _is_int(n.args[0].value) and 0 <= n.args[0].value <= 4096 \
                and n.args[1].value in ('little', 'big'):
            try:
                return _const(f.value.value.to_bytes(n.args[0].value, n.args[1].value), n)
            except (OverflowError, ValueError):
                pass
        if name == 'int.from_bytes' and len(n.args) == 2 and not n.keywords and all(isinstance(a, ast.Constant) for a in n.args) \
                and isinstance(n.args[0].value, bytes) and n.args[1].value in ('little', 'big'):
            return _const(int.from_bytes(n.args[0].value, n.args[1].value), n)
        if name == 'dict' and not n.args and n.keywords and all(k.arg for k in n.keywords):
            return ast.copy_location(ast.Dict(keys=[ast.Constant(value=k.arg) for k in n.keywords], values=[k.value for k in n.keywords]), n)
        if name == 'super' and len(n.args) == 2:
            n.args = []
            return n
        if name in ('struct.pack', 'struct.unpack', 'struct.unpack_from', 'struct.calcsize') and n.args and isinstance(n.args[0], ast.Constant) and isinstance(n.args[0].value, str):
            n.args[0] = _const(n.args[0].value.encode('ascii', 'replace'), n.args[0])
        # x.split(sep, 1)[0] and x.partition(sep)[0] name the same thing: handled in visit_Subscript
        if n.keywords and all(k.arg for k in n.keywords):
            params = self.signature(n)
            if params:
                have = len(n.args)
                byname = {k.arg: k.value for k in n.keywords}
                new = list(n.args)
                ok = True
                for p in params[have:]:
                    if p in byname:
                        new.append(byname.pop(p))
                    else:
                        break
                if not byname and ok:
                    n.args, n.keywords = new, []
        if n.keywords:
            n.keywords = sorted(n.keywords, key=lambda k: k.arg or '')
        return n

    # ---- subscripts
    def visit_Subscript(self, n):
        n = self.generic_visit(n)
        base = norm(n.value)

        def minus_len(e):
            """len(base) - k -> -k ; len(base) -> None marker"""
            if isinstance(e, ast.Call) and norm(e) == 'len(%s)' % base:
                return 'END'
            if isinstance(e, ast.BinOp) and isinstance(e.op, ast.Sub) and norm(e.left) == 'len(%s)' % base and isinstance(e.right, ast.Constant) and _is_int(e.right.value) and e.right.value > 0:
                return ast.copy_location(ast.UnaryOp(op=ast.USub(), operand=ast.Constant(value=e.right.value)), e)
            return None
        s = n.slice
        if isinstance(s, ast.Slice):
            if isinstance(s.lower, ast.Constant) and s.lower.value == 0:
                s.lower = None
            if s.upper is not None:
                m = minus_len(s.upper)
                if m == 'END':
                    s.upper = None
                elif m is not None:
                    s.upper = m
            if s.lower is not None:
                m = minus_len(s.lower)
                if m is not None and m != 'END':
                    s.lower = m
            if isinstance(s.step, ast.Constant) and s.step.value == 1:
                s.step = None
        else:
            m = minus_len(s)
            if m is not None and m != 'END':
                n.slice = m
            # x.split(sep, 1)[0] == x.partition(sep)[0]
            if isinstance(s, ast.Constant) and s.value == 0 and isinstance(n.value, ast.Call) and isinstance(n.value.func, ast.Attribute):
                c = n.value
                if c.func.attr == 'split' and len(c.args) == 2 and isinstance(c.args[1], ast.Constant) and c.args[1].value == 1 and not c.keywords:
                    c.func.attr = 'partition'
                    c.args = [c.args[0]]
        return n

    # ---- min / max written as a conditional expression
    def visit_IfExp(self, n):
        n = self.generic_visit(n)
        t = n.test
        if isinstance(t, ast.Compare) and len(t.ops) == 1:
            from .rules import canon_arith

            def ca(e):
                try:
                    return str(canon_arith(_clone(e)))
                except Exception:
                    return norm(e)

            def shifted(e, d):
                return ast.BinOp(left=_clone(e), op=ast.Add(), right=ast.Constant(value=d)) if d else e
            op = t.ops[0]
            L, R = t.left, t.comparators[0]
            x, y = ca(n.body), ca(n.orelse)
            # integer readings of the test as "L' <= R'" (value is the smaller) or "L' >= R'" (value is the larger)
            forms = []
            if isinstance(op, ast.LtE):
                forms = [('le', L, R)]
            elif isinstance(op, ast.Lt):
                forms = [('le', L, shifted(R, -1)), ('le', shifted(L, 1), R), ('lt', L, R)]
            elif isinstance(op, ast.GtE):
                forms = [('ge', L, R)]
            elif isinstance(op, ast.Gt):
                forms = [('ge', L, shifted(R, 1)), ('ge', shifted(L, -1), R), ('gt', L, R)]
            for kind, a, b in forms:
                ka, kb = ca(a), ca(b)
                if {ka, kb} == {x, y} and ka != kb:
                    picks_a = (x == ka)
                    small = kind in ('le', 'lt')
                    fn = 'min' if (small == picks_a) else 'max'
                    args = sorted([n.body, n.orelse], key=norm)
                    return ast.copy_location(ast.Call(func=ast.Name(id=fn, ctx=ast.Load()), args=args, keywords=[]), n)
        return n

    def visit_Call_minmax(self, n):
        return n


def _sort_minmax(e):
    for n in ast.walk(e):
        if isinstance(n, ast.Call) and isinstance(n.func, ast.Name) and n.func.id in ('min', 'max') and len(n.args) == 2 and not n.keywords:
            n.args = sorted(n.args, key=norm)
    return e


def _is_boolean(e):
    return isinstance(e, (ast.Compare, ast.BoolOp)) or (isinstance(e, ast.UnaryOp) and isinstance(e.op, ast.Not))


def _may_raise_atom(e):
    for n in ast.walk(e):
        if isinstance(n, ast.Subscript) and not isinstance(n.slice, ast.Slice):
            return True
        if isinstance(n, ast.Call) and not (isinstance(n.func, ast.Name) and n.func.id in ('len', 'isinstance', 'ord', 'bool', 'any', 'all')):
            return True
        if isinstance(n, ast.BinOp) and isinstance(n.op, (ast.Div, ast.FloorDiv, ast.Mod)):
            return True
    return False


def _atoms_in_order(e):
    """the atoms of a boolean formula in evaluation order, each in a polarity-free canonical text"""
    from .rules import _canon_text_of
    out = []

    def walk(x):
        if isinstance(x, ast.BoolOp):
            for v in x.values:
                walk(v)
        elif isinstance(x, ast.UnaryOp) and isinstance(x.op, ast.Not):
            walk(x.operand)
        elif isinstance(x, ast.Compare) and len(x.ops) > 1:
            # a chained comparison evaluates its operands left to right
            for k in range(len(x.ops)):
                walk(ast.Compare(left=x.left if k == 0 else x.comparators[k - 1], ops=[x.ops[k]], comparators=[x.comparators[k]]))
        else:
            try:
                a, b = _canon_text_of(_clone(x)), _canon_text_of(_clone(x), negate=True)
            except Exception:
                a = b = norm(x)
            out.append(min(a, b))
    walk(e)
    return out


def _order_key(e):
    """'' for a formula none of whose atoms can raise; otherwise its atoms in evaluation order: `a and b` is `b and a` only
    as a truth value - if evaluating b can raise (an index, a call), which of them is looked at first is behaviour"""
    if not _may_raise_atom(e):
        return ''
    return ' ORD:' + '|'.join(_atoms_in_order(e))


def _canon_bool(e):
    from .rules import _canon_text_of
    try:
        return 'B:' + _canon_text_of(_clone(e)) + _order_key(e)
    except Exception:
        return 'b:' + norm(e)


def _canon_value(e):
    """key text of an expression: guards through the linear normal form, integer arithmetic through canon_arith"""
    if _is_boolean(e):
        return _canon_bool(e)
    if isinstance(e, ast.BinOp) or (isinstance(e, ast.Call) and norm(e.func) in ('min', 'max')):
        from .rules import canon_arith
        try:
            t = canon_arith(_clone(e))
            if t:
                return 'A:' + str(t)
        except Exception:
            pass
    return norm(e)


class Restorer(object):
    def __init__(self, signature=None, log=None):
        self.nf = NF(signature)
        self.log = log or (lambda node, text: None)

    # ---- keys
    def expr_nf(self, e):
        e2 = self.nf.visit(_clone(e))
        return _sort_minmax(ast.fix_missing_locations(e2))

    def stmt_key(self, s):
        """normal-form key of a statement (compound statements: of their header)"""
        try:
            if isinstance(s, (ast.If, ast.While)):
                return 'if ' + _canon_bool(self.expr_nf(s.test))
            if isinstance(s, ast.For):
                return 'for %s in %s' % (norm(s.target), _canon_value(self.expr_nf(s.iter)))
            if isinstance(s, ast.Return):
                return 'return ' + (_canon_value(self.expr_nf(s.value)) if s.value is not None else '')
            if isinstance(s, ast.Assign) and len(s.targets) == 1:
                return '%s = %s' % (norm(self.expr_nf(s.targets[0])), _canon_value(self.expr_nf(s.value)))
            if isinstance(s, ast.AugAssign):
                return '%s %s= %s' % (norm(self.expr_nf(s.target)), type(s.op).__name__, _canon_value(self.expr_nf(s.value)))
            if isinstance(s, ast.Raise) and s.exc is not None:
                exc = self.expr_nf(s.exc)
                if isinstance(exc, (ast.Name, ast.Attribute)):
                    exc = ast.Call(func=exc, args=[], keywords=[])
                return 'raise ' + norm(exc) + (' from ' + norm(s.cause) if s.cause is not None else '')
            if isinstance(s, ast.Expr):
                return norm(self.expr_nf(s.value))
            if isinstance(s, ast.Assert):
                return 'assert ' + _canon_bool(self.expr_nf(s.test))
            s2 = _clone(s)
            for f_, v in ast.iter_fields(s2):
                if isinstance(v, ast.expr):
                    setattr(s2, f_, self.expr_nf(v))
            return norm(s2)
        except Exception:
            return norm(s) if not isinstance(s, (ast.If, ast.While)) else 'if ' + norm(s.test)

    @staticmethod
    def text_of(s):
        if isinstance(s, (ast.If, ast.While)):
            return 'if ' + ast.unparse(s.test)
        if isinstance(s, ast.For):
            return 'for %s in %s' % (ast.unparse(s.target), ast.unparse(s.iter))
        if isinstance(s, (ast.Try, ast.With)):
            return type(s).__name__
        return ast.unparse(s)

    @staticmethod
    def parse_inv(text):
        """inventory statement text -> (kind, node)"""
        try:
            if text.startswith('if '):
                return 'if', ast.parse(text[3:], mode='eval').body
            if text.startswith('for ') and ' in ' in text:
                m = ast.parse(text + ':\n    pass').body[0]
                return 'for', m
            return 'stmt', ast.parse(text).body[0]
        except SyntaxError:
            return None, None

    # ---- the pass
    def run(self, fnode, inv):
        inv_texts = Counter(inv.get('stmts', []))
        if not inv_texts:
            return 0
        # structure first (it changes which statements exist), then spelling, then structure again (a restored guard may
        # be the key to an else / merge decision)
        changed = 0
        for _ in range(2):
            changed += self.structure(fnode, inv)
            changed += self.spelling(fnode, inv_texts)
        return changed

    def current_texts(self, fnode):
        """[(block, index, statement, text)] for every statement of the function (nested blocks included)"""
        out = []
        for blk in _blocks(fnode):
            for i, n in enumerate(blk):
                if isinstance(n, (ast.FunctionDef, ast.AsyncFunctionDef, ast.ClassDef)):
                    continue
                if isinstance(n, ast.Pass) or (isinstance(n, ast.Expr) and isinstance(n.value, ast.Constant)):
                    continue
                out.append((blk, i, n, self.text_of(n)))
        return out

    def spelling(self, fnode, inv_texts):
        cur = self.current_texts(fnode)
        avail = Counter(inv_texts)
        unknown = []
        for blk, i, n, t in cur:
            if avail.get(t, 0) > 0:
                avail[t] -= 1
            else:
                unknown.append((blk, i, n, t))
        if not unknown:
            return 0
        inv_keys = {}
        for t, c in avail.items():
            if c <= 0:
                continue
            kind, node = self.parse_inv(t)
            if node is None:
                continue
            if kind == 'if':
                k = 'if ' + _canon_bool(self.expr_nf(node))
            else:
                k = self.stmt_key(node)
            inv_keys.setdefault(k, []).append((t, kind, node))
        changed = 0
        still = []
        for blk, i, n, t in unknown:
            if isinstance(n, (ast.Try, ast.With)):
                continue
            k = self.stmt_key(n)
            cands = [c for c in inv_keys.get(k, []) if avail[c[0]] > 0 and self.compatible(n, c[1])]
            if cands:
                t0, kind, node = cands[0]
                avail[t0] -= 1
                self.replace(blk, i, n, kind, node, t, t0)
                changed += 1
            else:
                still.append((blk, i, n, t))
        # guards: decide equivalence
        from .rules import equiv
        for blk, i, n, t in still:
            if not isinstance(n, (ast.If, ast.While)):
                continue
            try:
                mine = self.expr_nf(n.test)
            except Exception:
                continue
            for t0, c in list(avail.items()):
                if c <= 0 or not t0.startswith('if '):
                    continue
                kind, node = self.parse_inv(t0)
                if node is None:
                    continue
                try:
                    theirs = self.expr_nf(node)
                    # a bare sequence name in a boolean position means len(name) > 0: the names are taken from the len()
                    # calls of the confirmed guard
                    seqs = {norm(c.args[0]) for c in ast.walk(theirs) if isinstance(c, ast.Call) and norm(c.func) == 'len' and len(c.args) == 1 and isinstance(c.args[0], ast.Name)}
                    m2 = _clone(mine)
                    if seqs:
                        from .escape import _TruthyLen
                        m2 = ast.fix_missing_locations(_TruthyLen(seqs)._b(m2))
                    v = equiv(m2, theirs)
                    if v is True and _order_key(mine) != _order_key(theirs):
                        v = None  # the same truth value, but not the same order of evaluation
                except Exception:
                    v = None
                if v is True:
                    avail[t0] -= 1
                    self.replace(blk, i, n, 'if', node, t, t0)
                    changed += 1
                    break
        return changed

    @staticmethod
    def compatible(n, kind):
        if kind == 'if':
            return isinstance(n, (ast.If, ast.While))
        if kind == 'for':
            return isinstance(n, ast.For)
        return not isinstance(n, (ast.If, ast.While, ast.For, ast.Try, ast.With))

    def replace(self, blk, i, n, kind, node, old, new):
        if kind == 'if':
            new_test = _clone(node)
            for x in ast.walk(new_test):
                ast.copy_location(x, n.test)
            n.test = new_test
        elif kind == 'for':
            n.target = _clone(node.target)
            n.iter = _clone(node.iter)
            for x in list(ast.walk(n.target)) + list(ast.walk(n.iter)):
                ast.copy_location(x, n)
        else:
            fresh = _clone(node)
            for x in ast.walk(fresh):
                ast.copy_location(x, n)
            blk[i] = fresh
        self.log(n, 'statement `%s` read as its confirmed spelling `%s`' % (old[:70], new[:70]))

    @staticmethod
    def zero_trip_guard(blk, i):
        s = blk[i]
        if s.orelse or len(s.body) != 1 or not isinstance(s.body[0], ast.Return) or s.body[0].value is None:
            return False
        ret = s.body[0].value
        # the subject: N in `N == 0`, `N < 1`, `not N`, `len(S) == 0`, `len(S) < 1`, `not S`
        t = s.test
        subj = None
        if isinstance(t, ast.UnaryOp) and isinstance(t.op, ast.Not):
            subj = t.operand
        elif isinstance(t, ast.Compare) and len(t.ops) == 1 and isinstance(t.comparators[0], ast.Constant):
            c = t.comparators[0].value
            if (isinstance(t.ops[0], ast.Eq) and c == 0) or (isinstance(t.ops[0], ast.Lt) and c == 1) or (isinstance(t.ops[0], ast.LtE) and c == 0):
                subj = t.left
        if subj is None:
            return False
        seq = subj.args[0] if (isinstance(subj, ast.Call) and norm(subj.func) == 'len' and len(subj.args) == 1) else None
        rest = blk[i + 1:]
        loops = [k for k, x in enumerate(rest) if isinstance(x, (ast.For, ast.While))]
        if len(loops) != 1:
            return False
        lp = rest[loops[0]]
        if lp.orelse:
            return False
        before, after = rest[:loops[0]], rest[loops[0] + 1:]
        if isinstance(lp, ast.For):
            it = lp.iter
            if isinstance(it, ast.Call) and norm(it.func) == 'enumerate' and it.args:
                it = it.args[0]
            zero = False
            if isinstance(it, ast.Call) and norm(it.func) == 'range' and it.args:
                stop = it.args[0] if len(it.args) == 1 else it.args[1]
                start_ok = len(it.args) == 1 or (isinstance(it.args[0], ast.Constant) and it.args[0].value == 0)
                zero = start_ok and norm(stop) == norm(subj)
            elif seq is not None:
                zero = norm(it) == norm(seq)
            elif isinstance(subj, ast.Name):
                zero = norm(it) == norm(subj)
            if not zero:
                return False
        else:
            return False
        # statements around the loop: plain initialisations before, a single return after
        if not all(isinstance(x, ast.Assign) and len(x.targets) == 1 and isinstance(x.targets[0], ast.Name) and
                   not any(isinstance(c, ast.Call) for c in ast.walk(x.value)) for x in before):
            return False
        if len(after) != 1 or not isinstance(after[0], ast.Return) or after[0].value is None:
            return False
        final = after[0].value
        if isinstance(final, ast.Name):
            inits = [x.value for x in before if x.targets[0].id == final.id]
            if len(inits) != 1:
                return False
            final = inits[0]
        try:
            return ast.literal_eval(ast.unparse(final)) == ast.literal_eval(ast.unparse(ret)) and type(ast.literal_eval(ast.unparse(final))) is type(ast.literal_eval(ast.unparse(ret)))
        except Exception:
            return False

    # ---- structure
    def structure(self, fnode, inv):
        inv_ifs = inv.get('ifs')
        if inv_ifs is None:
            return 0
        changed = 0
        known_tests = {}
        for test, has_else, exits in inv_ifs:
            known_tests.setdefault(test, []).append((has_else, exits))
        inv_if_texts = set(known_tests)
        inv_keys = {}
        for t in inv_if_texts:
            try:
                inv_keys.setdefault('if ' + _canon_bool(self.expr_nf(ast.parse(t, mode='eval').body)), []).append(t)
            except SyntaxError:
                pass

        def known(test):
            t = ast.unparse(test)
            if t in inv_if_texts:
                return t
            k = 'if ' + _canon_bool(self.expr_nf(test))
            ts = inv_keys.get(k)
            return ts[0] if ts else None
        again = True
        rounds = 0
        while again and rounds < 8:
            again = False
            rounds += 1
            for lp_ in ast.walk(fnode):
                if isinstance(lp_, (ast.For, ast.While)):
                    for x_ in lp_.body:
                        x_._restore_parent = lp_
            for blk in _blocks(fnode):
                # (6) `x = A if T else B` / `return A if T else B` where T is a guard the confirmed tree tests in an if-statement:
                # read as that if-statement
                for i, s in enumerate(blk):
                    if not isinstance(s, (ast.Assign, ast.AugAssign, ast.Return, ast.Expr)) or s.value is None:
                        continue
                    if isinstance(s, ast.Assign) and (len(s.targets) != 1 or any(isinstance(x, (ast.Call, ast.Subscript)) for x in ast.walk(s.targets[0]))):
                        continue
                    if not any(isinstance(x, ast.IfExp) for x in ast.walk(s.value)):
                        continue
                    from .lower import first_unconditional
                    hit = first_unconditional(s.value, ast.IfExp)
                    if hit is None:
                        continue
                    val = hit[0]
                    kt = known(val.test)
                    neg = ast.UnaryOp(op=ast.Not(), operand=val.test)
                    kn = known(neg) if kt is None else None
                    if kt is None and kn is None:
                        continue

                    def mk(pick):
                        n_ = _clone(s)
                        h2 = first_unconditional(n_.value, ast.IfExp)
                        w2, parent, field, index = h2
                        arm = w2.body if pick else w2.orelse
                        if parent is None:
                            n_.value = arm
                        elif index is None:
                            setattr(parent, field, arm)
                        else:
                            getattr(parent, field)[index] = arm
                        for x in ast.walk(n_):
                            ast.copy_location(x, s)
                        return n_
                    if kt is not None:
                        test, a_, b_ = _clone(val.test), mk(True), mk(False)
                    else:
                        test, a_, b_ = neg, mk(False), mk(True)
                    new_if = ast.If(test=test, body=[a_], orelse=[b_])
                    ast.copy_location(new_if, s)
                    for x in ast.walk(new_if.test):
                        ast.copy_location(x, s)
                    blk[i] = new_if
                    self.log(s, 'conditional expression on `%s` read as the if-statement of the confirmed tree' % norm(val.test)[:40])
                    changed += 1
                    again = True
                    break
                if again:
                    break
                # (7) a guard clause `if C: continue` in front of the rest of a loop body is `if not C: <rest>` when that is
                # a guard the confirmed tree tests
                for i, s in enumerate(blk):
                    if isinstance(s, ast.If) and not s.orelse and len(s.body) == 1 and isinstance(s.body[0], ast.Continue) and blk[i + 1:] \
                            and isinstance(getattr(s, '_restore_parent', None), (ast.For, ast.While)) and known(s.test) is None:
                        neg = ast.UnaryOp(op=ast.Not(), operand=s.test)
                        if known(neg) is not None and not any(isinstance(x, (ast.Continue, ast.Break)) for r_ in blk[i + 1:] for x in ast.walk(r_) if False):
                            s.test = neg
                            ast.copy_location(neg, s)
                            s.body = blk[i + 1:]
                            del blk[i + 1:]
                            self.log(s, 'guard clause `if ...: continue` read as `if %s:` around the rest of the loop body' % known(neg)[:50])
                            changed += 1
                            again = True
                            break
                if again:
                    break
                # (4) `r = n % b` then `n = n // b` is `n, r = divmod(n, b)` when that is what the confirmed tree says
                for i in range(len(blk) - 1):
                    s1, s2 = blk[i], blk[i + 1]
                    if isinstance(s1, ast.Assign) and isinstance(s2, ast.Assign) and len(s1.targets) == 1 and len(s2.targets) == 1 \
                            and isinstance(s1.targets[0], ast.Name) and isinstance(s2.targets[0], ast.Name) \
                            and isinstance(s1.value, ast.BinOp) and isinstance(s1.value.op, ast.Mod) and isinstance(s2.value, ast.BinOp) and isinstance(s2.value.op, ast.FloorDiv) \
                            and norm(s1.value.left) == norm(s2.value.left) == s2.targets[0].id and norm(s1.value.right) == norm(s2.value.right) and s1.targets[0].id != s2.targets[0].id:
                        merged = ast.parse('%s, %s = divmod(%s, %s)' % (s2.targets[0].id, s1.targets[0].id, s2.targets[0].id, norm(s1.value.right))).body[0]
                        if ast.unparse(merged) in set(inv.get('stmts', [])):
                            for x in ast.walk(merged):
                                ast.copy_location(x, s1)
                            blk[i:i + 2] = [merged]
                            self.log(s1, 'remainder and quotient statements read as `%s`' % ast.unparse(merged))
                            changed += 1
                            again = True
                            break
                if again:
                    break
                # (5) a zero-trip guard: `if n == 0: return <empty>` in front of a loop over range(n) (or over the sequence) whose
                # result, when the loop body never runs, is that same empty value.  The guard adds no behaviour; without it
                # the function is the confirmed one.
                for i, s in enumerate(blk):
                    if blk is fnode.body and isinstance(s, ast.If) and known(s.test) is None and self.zero_trip_guard(blk, i):
                        self.log(s, 'guard `if %s: %s` only anticipates the result of the loop that follows when it runs zero times' % (norm(s.test)[:40], norm(s.body[0])[:30]))
                        del blk[i]
                        changed += 1
                        again = True
                        break
                if again:
                    break
                for i, s in enumerate(blk):
                    if not isinstance(s, ast.If):
                        continue
                    kt = known(s.test)
                    # (1) else restored / removed after a branch that always leaves
                    if kt is not None and _always_exits(s.body):
                        shapes = known_tests.get(kt, [])
                        wants_else = [h for h, e in shapes if e]
                        if wants_else and all(wants_else) and not s.orelse and len(set(wants_else)) == 1 and len(blk[i + 1:]) >= wants_else[0]:
                            k_ = int(wants_else[0])
                            s.orelse = blk[i + 1:i + 1 + k_]
                            del blk[i + 1:i + 1 + k_]
                            self.log(s, 'statements after `if %s` (whose body always leaves) read as its else branch, as on the confirmed tree' % kt[:50])
                            changed += 1
                            again = True
                            break
                        if wants_else and not any(wants_else) and s.orelse:
                            tail = s.orelse
                            s.orelse = []
                            blk[i + 1:i + 1] = tail
                            self.log(s, 'else branch of `if %s` (whose body always leaves) read as the statements after it, as on the confirmed tree' % kt[:50])
                            changed += 1
                            again = True
                            break
                    # (2) nested ifs for one conjunction
                    if kt is None and not s.orelse and len(s.body) == 1 and isinstance(s.body[0], ast.If) and not s.body[0].orelse:
                        both = ast.BoolOp(op=ast.And(), values=[s.test, s.body[0].test])
                        ast.copy_location(both, s.test)
                        if known(both) is not None:
                            s.test = both
                            s.body = s.body[0].body
                            self.log(s, 'nested ifs read as one conjunction `%s`' % known(both)[:60])
                            changed += 1
                            again = True
                            break
                    # (3) a conjunction the confirmed tree tests in two nested ifs
                    if kt is None and not s.orelse and isinstance(s.test, ast.BoolOp) and isinstance(s.test.op, ast.And) and len(s.test.values) == 2:
                        a, b = s.test.values
                        if known(a) is not None and known(b) is not None:
                            inner = ast.If(test=b, body=s.body, orelse=[])
                            ast.copy_location(inner, s)
                            s.test = a
                            s.body = [inner]
                            self.log(s, 'conjunction read as the nested ifs of the confirmed tree')
                            changed += 1
                            again = True
                            break
                if again:
                    break
        return changed


def _blocks(node):
    for n in ast.walk(node):
        for f in ('body', 'orelse', 'finalbody'):
            b = getattr(n, f, None)
            if isinstance(b, list) and b and isinstance(b[0], ast.stmt):
                yield b
        if isinstance(n, ast.Try):
            for h in n.handlers:
                yield h.body


def _always_exits(body):
    if not body:
        return False
    s = body[-1]
    if isinstance(s, (ast.Return, ast.Raise, ast.Continue, ast.Break)):
        return True
    if isinstance(s, ast.If) and s.orelse:
        return _always_exits(s.body) and _always_exits(s.orelse)
    return False


def ifs_of_function(fnode):
    """[[test text, number of statements in the else branch, body_always_exits], ...] for the inventory"""
    out = []
    for n in ast.walk(fnode):
        if isinstance(n, ast.If):
            out.append([ast.unparse(n.test), len(n.orelse), _always_exits(n.body)])
    return out
