"""RULES engine: accept/reject guards normalised to canonical comparisons (DESIGN.md 3.6)."""
import ast

from .model import UNKNOWN, OpInt, norm, walk_no_nested
from . import flow

FLIP = {ast.Lt: ast.Gt, ast.Gt: ast.Lt, ast.LtE: ast.GtE, ast.GtE: ast.LtE, ast.Eq: ast.Eq, ast.NotEq: ast.NotEq}
NEG = {ast.Lt: ast.GtE, ast.Gt: ast.LtE, ast.LtE: ast.Gt, ast.GtE: ast.Lt, ast.Eq: ast.NotEq, ast.NotEq: ast.Eq,
       ast.In: ast.NotIn, ast.NotIn: ast.In, ast.Is: ast.IsNot, ast.IsNot: ast.Is}


class _Folder(ast.NodeTransformer):
    def __init__(self, repo, module, cls, env, keep=()):
        self.repo, self.module, self.cls, self.env, self.keep = repo, module, cls, env or {}, set(keep)

    def generic_visit(self, node):
        if isinstance(node, ast.expr) and not isinstance(node, (ast.Constant,)):
            reads_chain = any((isinstance(x, ast.Attribute) and x.attr in ('params', 'coreparams')) or (isinstance(x, ast.Name) and x.id in ('params', 'coreparams'))
                              for x in ast.walk(node))
            if not (isinstance(node, ast.Name) and node.id in self.keep) and not reads_chain:
                v = self.repo.fold(node, self.module, cls=self.cls, env=self.env)
                if isinstance(v, float) and v == int(v):
                    v = int(v)
                if isinstance(v, (int, bytes, str)) and not isinstance(v, bool):
                    return ast.Constant(value=int(v) if isinstance(v, int) else v)
                if v is None or isinstance(v, bool):
                    return ast.Constant(value=v)
        return super().generic_visit(node)


def _copy(e):
    return ast.parse(ast.unparse(e), mode='eval').body


def canon_guard(test, repo, module, cls=None, env=None, negate=False):
    """canonical text of a boolean guard: names folded to constants, `not` pushed inward, chains and `in (..)` expanded,
    every ordering comparison brought to the linear normal form `sum(terms) < c` / `> c` (integers: <= c is < c+1), so
    that operand order, side swapping, moved constants and strict/non-strict spellings of one test coincide"""
    e = _Folder(repo, module, cls, env).visit(_copy(test))
    return _canon_text_of(e, negate)


def canon_text(text, negate=False):
    """the same canonical form for an expected guard given as text (constants already literal)"""
    return _canon_text_of(ast.parse(text, mode='eval').body, negate)


def _canon_text_of(e, negate=False):
    e = _push_not(e, negate)
    t = ast.unparse(ast.fix_missing_locations(_order(e)))
    try:
        return ast.unparse(ast.parse(t, mode='eval').body)
    except SyntaxError:
        return t


def same_guard(a, b):
    """are two guard texts (canonical or not) the same test?"""
    try:
        return canon_text(a) == canon_text(b)
    except SyntaxError:
        return a == b


def _push_not(e, neg):
    if isinstance(e, ast.UnaryOp) and isinstance(e.op, ast.Not):
        return _push_not(e.operand, not neg)
    if isinstance(e, ast.Call) and isinstance(e.func, ast.Name) and e.func.id == 'bool' and len(e.args) == 1 and not e.keywords:
        return _push_not(e.args[0], neg)
    if isinstance(e, ast.BoolOp):
        vals = []
        op = e.op
        if neg:
            op = ast.Or() if isinstance(e.op, ast.And) else ast.And()
        for v in e.values:
            pv = _push_not(v, neg)
            if isinstance(pv, ast.BoolOp) and type(pv.op) is type(op):
                vals.extend(pv.values)
            else:
                vals.append(pv)
        return ast.BoolOp(op=op, values=vals)
    if isinstance(e, ast.Compare) and len(e.ops) == 1 and isinstance(e.ops[0], (ast.Eq, ast.NotEq)):
        # X[k:k+1] == b'c'  is  len(X) > k and X[k] == c   (a one-byte slice equals a one-byte constant)
        for a_, b_ in ((e.left, e.comparators[0]), (e.comparators[0], e.left)):
            if isinstance(a_, ast.Subscript) and isinstance(a_.slice, ast.Slice) and a_.slice.step is None and a_.slice.lower is not None and a_.slice.upper is not None \
                    and isinstance(b_, ast.Constant) and isinstance(b_.value, bytes) and len(b_.value) == 1:
                lo, hi = _ca_int(a_.slice.lower), _ca_int(a_.slice.upper)
                if lo is not None and hi is not None and lo >= 0 and hi == lo + 1:
                    conj = ast.BoolOp(op=ast.And(), values=[
                        ast.Compare(left=ast.Call(func=ast.Name(id='len', ctx=ast.Load()), args=[a_.value], keywords=[]), ops=[ast.Gt()], comparators=[ast.Constant(value=lo)]),
                        ast.Compare(left=ast.Subscript(value=a_.value, slice=ast.Constant(value=lo), ctx=ast.Load()), ops=[ast.Eq()], comparators=[ast.Constant(value=b_.value[0])])])
                    return _push_not(conj, neg != isinstance(e.ops[0], ast.NotEq))
    if isinstance(e, ast.Compare):
        if len(e.ops) == 1:
            op = e.ops[0]
            if neg:
                t = NEG.get(type(op))
                if t is None:
                    return ast.UnaryOp(op=ast.Not(), operand=e)
                op = t()
            # x in (A, B) -> x == A or x == B ; x not in (A, B) -> x != A and x != B
            c = e.comparators[0]
            if isinstance(op, (ast.In, ast.NotIn)) and isinstance(c, (ast.Tuple, ast.List, ast.Set)) and 0 < len(c.elts) <= 8:
                parts = [ast.Compare(left=e.left, ops=[ast.Eq() if isinstance(op, ast.In) else ast.NotEq()], comparators=[x]) for x in c.elts]
                if len(parts) == 1:
                    return parts[0]
                return ast.BoolOp(op=ast.Or() if isinstance(op, ast.In) else ast.And(), values=parts)
            return ast.Compare(left=e.left, ops=[op], comparators=e.comparators)
        # chained a <= x <= b  ==  a <= x and x <= b
        parts = []
        left = e.left
        for op, right in zip(e.ops, e.comparators):
            parts.append(ast.Compare(left=left, ops=[op], comparators=[right]))
            left = right
        return _push_not(ast.BoolOp(op=ast.And(), values=parts), neg)
    if isinstance(e, ast.IfExp) and isinstance(e.body, ast.Constant) and isinstance(e.orelse, ast.Constant) \
            and isinstance(e.body.value, bool) and isinstance(e.orelse.value, bool) and e.body.value != e.orelse.value:
        return _push_not(e.test, neg if e.body.value else not neg)
    if _is_len(e):
        return ast.Compare(left=e, ops=[ast.Lt() if neg else ast.Gt()], comparators=[ast.Constant(value=1 if neg else 0)])
    q = _quantifier(e)
    if q is not None:
        # one spelling for quantified tests: `any(P for x in S)`, possibly negated; all(P) == not any(not P);
        # the bound variable is renamed to `x`
        kind, elt, var, seq = q
        inner_neg = (kind == 'all')
        outer_neg = neg != (kind == 'all')
        body = _order(_push_not(_rename_var(elt, var, 'x'), inner_neg))
        seq2 = _rename_var(seq, None, None)
        gen = ast.GeneratorExp(elt=body, generators=[ast.comprehension(target=ast.Name(id='x', ctx=ast.Store()), iter=seq2, ifs=[], is_async=0)])
        call = ast.Call(func=ast.Name(id='any', ctx=ast.Load()), args=[gen], keywords=[])
        return ast.UnaryOp(op=ast.Not(), operand=call) if outer_neg else call
    if neg:
        return ast.UnaryOp(op=ast.Not(), operand=e)
    return e


def _quantifier(e):
    if isinstance(e, ast.Call) and isinstance(e.func, ast.Name) and e.func.id in ('any', 'all') and len(e.args) == 1 and not e.keywords \
            and isinstance(e.args[0], (ast.GeneratorExp, ast.ListComp)) and len(e.args[0].generators) == 1 \
            and not e.args[0].generators[0].ifs and isinstance(e.args[0].generators[0].target, ast.Name):
        g = e.args[0]
        return e.func.id, g.elt, g.generators[0].target.id, g.generators[0].iter
    return None


def _rename_var(e, old, new):
    e = _copy(e)
    if old is None or old == new:
        return e
    for n in ast.walk(e):
        if isinstance(n, ast.Name) and n.id == old:
            n.id = new
    return e


def _linear(e):
    """integer-linear view of an expression: ({atom text: coefficient}, constant) or None"""
    if isinstance(e, ast.Constant):
        if isinstance(e.value, int) and not isinstance(e.value, bool):
            return {}, e.value
        return None
    if isinstance(e, ast.UnaryOp) and isinstance(e.op, ast.USub):
        r = _linear(e.operand)
        if r is None:
            return None
        return {k: -v for k, v in r[0].items()}, -r[1]
    if isinstance(e, ast.UnaryOp) and isinstance(e.op, ast.UAdd):
        return _linear(e.operand)
    if isinstance(e, ast.BinOp) and isinstance(e.op, (ast.Add, ast.Sub)):
        a, b = _linear(e.left), _linear(e.right)
        if a is None or b is None:
            return None
        sgn = 1 if isinstance(e.op, ast.Add) else -1
        terms = dict(a[0])
        for k, v in b[0].items():
            terms[k] = terms.get(k, 0) + sgn * v
        return {k: v for k, v in terms.items() if v}, a[1] + sgn * b[1]
    if isinstance(e, ast.BinOp) and isinstance(e.op, ast.Mult):
        a, b = _linear(e.left), _linear(e.right)
        if a is not None and b is not None:
            if not a[0]:
                return {k: v * a[1] for k, v in b[0].items() if v * a[1]}, a[1] * b[1]
            if not b[0]:
                return {k: v * b[1] for k, v in a[0].items() if v * b[1]}, a[1] * b[1]
    if isinstance(e, (ast.Constant,)):
        return None
    if isinstance(e, (ast.Tuple, ast.List, ast.Dict, ast.Set, ast.JoinedStr, ast.Lambda, ast.Compare, ast.BoolOp)):
        return None
    return {ast.unparse(e): 1}, 0


def _lin_expr(terms):
    parts = []
    for k in sorted(terms):
        c = terms[k]
        atom = '(%s)' % k if not k.replace('_', 'a').replace('.', 'a').isalnum() and not k.endswith((')', ']')) else k
        if c == 1:
            parts.append(('+', atom))
        elif c == -1:
            parts.append(('-', atom))
        elif c > 0:
            parts.append(('+', '%d * %s' % (c, atom)))
        else:
            parts.append(('-', '%d * %s' % (-c, atom)))
    txt = ''
    for i, (sg, a) in enumerate(parts):
        if i == 0:
            txt = a if sg == '+' else '-' + a
        else:
            txt += ' %s %s' % (sg, a)
    return txt


def _is_len(e):
    return isinstance(e, ast.Call) and isinstance(e.func, ast.Name) and e.func.id == 'len'


def _order(e):
    if isinstance(e, ast.BoolOp):
        return ast.BoolOp(op=e.op, values=[_order(v) for v in e.values])
    if isinstance(e, ast.UnaryOp) and isinstance(e.op, ast.Not):
        return ast.UnaryOp(op=ast.Not(), operand=_order(e.operand))
    if isinstance(e, ast.Compare) and len(e.ops) == 1 and isinstance(e.ops[0], (ast.Eq, ast.NotEq)):
        # an integer built with bit operators compared with zero is its truth value
        for a_, b_ in ((e.left, e.comparators[0]), (e.comparators[0], e.left)):
            if _bitwise(a_) and isinstance(b_, ast.Constant) and b_.value == 0 and not isinstance(b_.value, bool):
                return a_ if isinstance(e.ops[0], ast.NotEq) else ast.UnaryOp(op=ast.Not(), operand=a_)
    if isinstance(e, ast.Compare) and len(e.ops) == 1:
        l, op, r = e.left, e.ops[0], e.comparators[0]
        ordering = isinstance(op, (ast.Lt, ast.LtE, ast.Gt, ast.GtE))
        equality = isinstance(op, (ast.Eq, ast.NotEq))
        ll, lr = _linear(l), _linear(r)
        arith = isinstance(l, (ast.BinOp, ast.UnaryOp)) or isinstance(r, (ast.BinOp, ast.UnaryOp)) \
            or (isinstance(l, ast.Constant) and isinstance(l.value, int) and not isinstance(l.value, bool)) \
            or (isinstance(r, ast.Constant) and isinstance(r.value, int) and not isinstance(r.value, bool)) \
            or _is_len(l) or _is_len(r)
        if ll is not None and lr is not None and (ordering or (equality and arith)):
            terms = dict(ll[0])
            for k, v in lr[0].items():
                terms[k] = terms.get(k, 0) - v
            terms = {k: v for k, v in terms.items() if v}
            const = lr[1] - ll[1]
            if terms:
                first = sorted(terms)[0]
                if terms[first] < 0:
                    terms = {k: -v for k, v in terms.items()}
                    const = -const
                    op = FLIP[type(op)]()
                # integers: E <= c  ==  E < c+1 ;  E >= c  ==  E > c-1
                if isinstance(op, ast.LtE):
                    op, const = ast.Lt(), const + 1
                elif isinstance(op, ast.GtE):
                    op, const = ast.Gt(), const - 1
                # a length is never negative: == 0 is < 1, != 0 is > 0
                if len(terms) == 1 and list(terms.values())[0] == 1 and list(terms)[0].startswith('len(') and const == 0:
                    if isinstance(op, ast.Eq):
                        op, const = ast.Lt(), 1
                    elif isinstance(op, ast.NotEq):
                        op, const = ast.Gt(), 0
                left = ast.parse(_lin_expr(terms), mode='eval').body
                return ast.Compare(left=left, ops=[op], comparators=[ast.Constant(value=const)])
        if isinstance(l, ast.Constant) and not isinstance(r, ast.Constant) and type(op) in FLIP:
            l, r, op = r, l, FLIP[type(op)]()
        elif equality and not isinstance(l, ast.Constant) and not isinstance(r, ast.Constant) and ast.unparse(l) > ast.unparse(r):
            l, r = r, l
        elif ordering and not isinstance(r, ast.Constant) and isinstance(op, (ast.Gt, ast.GtE)):
            l, r, op = r, l, FLIP[type(op)]()
        return ast.Compare(left=l, ops=[op], comparators=[r])
    if _is_len(e):
        # a bare length used as a truth value
        return ast.Compare(left=e, ops=[ast.Gt()], comparators=[ast.Constant(value=0)])
    return e


def _bitwise(e):
    return isinstance(e, ast.BinOp) and isinstance(e.op, (ast.RShift, ast.LShift, ast.BitAnd, ast.BitOr, ast.BitXor))


def outcome_formula(repo, fi, classify, stmts=None, env=None, atom=None, max_paths=4096):
    """The condition under which a function ends in a given way, as one formula: every path is traced (guards fork on
    their atoms), `classify(path)` names its outcome, and the formula of an outcome is the disjunction over its paths of
    the conjunction of the atoms assumed on the path (names folded to constants).  -> {outcome: formula text}"""
    from .table import Tracer
    tr = Tracer(repo, fi.module, cls=fi.cls, noreturn=['err_raiser'], atom=atom, max_paths=max_paths)
    paths = tr.trace(stmts if stmts is not None else fi.node.body, dict(env or {}))
    out = {}
    for p in paths:
        k = classify(p)
        lits = []
        for a, val in p.assume.items():
            try:
                ae = ast.parse(a, mode='eval').body
            except SyntaxError:
                return None
            ft = ast.unparse(_Folder(repo, fi.module, fi.cls, None).visit(ae))
            lits.append('(%s)' % ft if val else 'not (%s)' % ft)
        out.setdefault(k, []).append(' and '.join(lits) if lits else 'True')
    return {k: ' or '.join('(%s)' % c for c in v) for k, v in out.items()}


def raising_guards(fnode, repo, module, cls=None, env=None, noreturn=()):
    """all `if T: <always raises>` in a function -> [(canonical T, node)]  (assert X counts as `if not X: raise`)"""
    out = []
    # `if T: return ...` followed, in the same block, by statements that always raise: the raise happens when not T
    def blocks(node):
        for f_ in ('body', 'orelse', 'finalbody'):
            b_ = getattr(node, f_, None)
            if isinstance(b_, list) and b_ and isinstance(b_[0], ast.stmt):
                yield b_
                for s_ in b_:
                    if not isinstance(s_, (ast.FunctionDef, ast.AsyncFunctionDef, ast.ClassDef)):
                        for x in blocks(s_):
                            yield x
    for blk in blocks(fnode):
        for k_, s_ in enumerate(blk):
            if isinstance(s_, ast.If) and not s_.orelse and flow.always_exits(s_.body, noreturn) and not flow.always_raises(s_.body, noreturn) \
                    and k_ + 1 < len(blk) and flow.always_raises(blk[k_ + 1:], noreturn) and isinstance(blk[k_ + 1], ast.Raise):
                holder = ast.If(test=ast.UnaryOp(op=ast.Not(), operand=s_.test), body=[blk[k_ + 1]], orelse=[])
                ast.copy_location(holder, s_)
                holder._parent = getattr(s_, '_parent', None)
                out.append((canon_guard(s_.test, repo, module, cls, env, negate=True), holder))
    for n in walk_no_nested(fnode):
        if isinstance(n, ast.If) and flow.always_raises(n.body, noreturn):
            out.append((canon_guard(n.test, repo, module, cls, env), n))
        elif isinstance(n, ast.If) and n.orelse and flow.always_raises(n.orelse, noreturn) and not (len(n.orelse) == 1 and isinstance(n.orelse[0], ast.If)):
            out.append((canon_guard(n.test, repo, module, cls, env, negate=True), n))
    return out


def check_rule(rule, key, fi, repo, accepted, measure, what, env=None, noreturn=()):
    """find a raising guard whose canonical form is one of `accepted`; otherwise report the guard(s) on `measure`"""
    guards = raising_guards(fi.node, repo, fi.module, fi.cls, env, noreturn)
    accepted = [canon_text(a) for a in accepted]
    measure = canon_text(measure) if False else measure
    for g, n in guards:
        if g in accepted:
            rule.ok(key, '%s:%d' % (fi.module.relpath, n.lineno), '%s: `%s`' % (what, g))
            return n
    near = [(g, n) for g, n in guards if measure in g]
    if near:
        g, n = near[0]
        rule.violated(key, '%s:%d' % (fi.module.relpath, n.lineno), '%s: the guard is `%s`, the rule is `%s`' % (what, g, accepted[0]))
    else:
        rule.violated(key, fi.site, '%s: no raising guard `%s` in %s' % (what, accepted[0], fi.qualname))
    return None


# ------------------------------------------------------------------------------------------------ formula equivalence
class _Cells(object):
    """Decision procedure for Boolean combinations of (a) comparisons of an integer-linear term with a constant and
    (b) opaque atoms: the truth value of such a formula is constant on every cell of the partition the constants induce
    on each term's number line, so evaluating two formulas on one representative per cell (times every assignment of
    the opaque atoms) decides their equivalence.  Terms must not share variables (otherwise: None = undecided)."""

    def __init__(self, formulas):
        self.terms = {}  # term text -> set of constants
        self.free = []
        self.ok = True
        for f in formulas:
            self.collect(f)

    def atom_kind(self, e):
        if isinstance(e, ast.Compare) and len(e.ops) == 1 and isinstance(e.comparators[0], ast.Constant) \
                and isinstance(e.comparators[0].value, int) and not isinstance(e.comparators[0].value, bool) \
                and isinstance(e.ops[0], (ast.Lt, ast.Gt, ast.Eq, ast.NotEq, ast.LtE, ast.GtE)) and not isinstance(e.left, ast.Constant):
            return 'lin'
        return 'free'

    def collect(self, e):
        if isinstance(e, ast.BoolOp):
            for v in e.values:
                self.collect(v)
        elif isinstance(e, ast.UnaryOp) and isinstance(e.op, ast.Not):
            self.collect(e.operand)
        elif isinstance(e, ast.Constant):
            pass
        elif self.atom_kind(e) == 'lin':
            self.terms.setdefault(ast.unparse(e.left), set()).add(e.comparators[0].value)
        else:
            t = ast.unparse(e)
            if t not in self.free:
                self.free.append(t)

    def variables_disjoint(self):
        import re
        seen = {}
        for t in self.terms:
            lin = _linear(ast.parse(t, mode='eval').body)
            atoms = list(lin[0]) if lin else [t]
            for a in atoms:
                if a in seen and seen[a] != t:
                    return False
                seen[a] = t
        # an opaque atom that mentions a term's variable is still independent of its *value* only if it is not a
        # comparison of that variable; comparisons with non-integer constants are opaque by construction
        return True

    def var_cells(self):
        """terms that share variables (pos, len(b) - pos, len(b)): enumerate the variables.  For difference constraints
        (coefficients +-1, at most two variables per term) the integer points within one unit of the vertices of the
        arrangement - intersections of x = c and x - y = c lines - meet every cell."""
        import itertools
        lin = {}
        for t in self.terms:
            l = _linear(ast.parse(t, mode='eval').body)
            if l is None or l[1] != 0 or len(l[0]) > 2 or any(abs(c) != 1 for c in l[0].values()):
                return None
            lin[t] = l[0]
        variables = sorted({v for l in lin.values() for v in l})
        vals = {v: {0} for v in variables}
        for t, l in lin.items():
            if len(l) == 1:
                (v, c), = l.items()
                for k in self.terms[t]:
                    for d in (-1, 0, 1):
                        vals[v].add(c * k + d)
        for _round in range(2):
            for t, l in lin.items():
                if len(l) == 2:
                    (a, ca), (b, cb) = sorted(l.items())
                    for k in self.terms[t]:
                        # ca*a + cb*b = k  ->  a = ca*(k - cb*b)
                        for vb in list(vals[b]):
                            for d in (-1, 0, 1):
                                vals[a].add(ca * (k - cb * vb) + d)
                        for va in list(vals[a]):
                            for d in (-1, 0, 1):
                                vals[b].add(cb * (k - ca * va) + d)
        for v in variables:
            if v.startswith('len(') and v.endswith(')'):
                vals[v] = {x for x in vals[v] if x >= 0} | {0}
        n = 1
        for v in variables:
            n *= len(vals[v])
        n *= 2 ** len(self.free)
        if n > 400000:
            return None
        out = []
        for combo in itertools.product(*[sorted(vals[v]) for v in variables]):
            venv = dict(zip(variables, combo))
            tenv = {t: sum(c * venv[v] for v, c in l.items()) for t, l in lin.items()}
            for bits in itertools.product((False, True), repeat=len(self.free)):
                env = dict(tenv)
                env.update(dict(zip(self.free, bits)))
                env.update({'$' + v: x for v, x in venv.items()})
                out.append(env)
        return out

    def cells(self):
        import itertools
        axes = []
        names = []
        for t in sorted(self.terms):
            pts = set()
            for c in self.terms[t]:
                pts.update((c - 1, c, c + 1))
            if t.startswith('len(') and t.endswith(')') and t.count('(') == t.count(')'):
                pts = {p for p in pts if p >= 0} | {0}
            names.append(t)
            axes.append(sorted(pts))
        n = 1
        for a in axes:
            n *= len(a)
        n *= 2 ** len(self.free)
        if n > 200000:
            return None
        out = []
        for vals in itertools.product(*axes) if axes else [()]:
            for bits in itertools.product((False, True), repeat=len(self.free)):
                env = dict(zip(names, vals))
                env.update(dict(zip(self.free, bits)))
                out.append(env)
        return out

    def compile(self, e):
        """the formula as a Python function of the cell (a dict): atoms become lookups, the Boolean skeleton stays"""
        me = self

        def conv(x):
            if isinstance(x, ast.BoolOp):
                return ast.BoolOp(op=x.op, values=[conv(v) for v in x.values])
            if isinstance(x, ast.UnaryOp) and isinstance(x.op, ast.Not):
                return ast.UnaryOp(op=ast.Not(), operand=conv(x.operand))
            if isinstance(x, ast.Constant):
                return ast.Constant(value=bool(x.value))
            look = ast.Subscript(value=ast.Name(id='E', ctx=ast.Load()), slice=ast.Constant(value=ast.unparse(x.left) if me.atom_kind(x) == 'lin' else ast.unparse(x)), ctx=ast.Load())
            if me.atom_kind(x) == 'lin':
                return ast.Compare(left=look, ops=[x.ops[0]], comparators=[x.comparators[0]])
            return look
        body = ast.Expression(body=conv(e))
        ast.fix_missing_locations(body)
        code = compile(body, '<formula>', 'eval')
        return lambda env: bool(eval(code, {'__builtins__': {}}, {'E': env}))

    def ev(self, e, env):
        if isinstance(e, ast.BoolOp):
            vals = [self.ev(v, env) for v in e.values]
            return all(vals) if isinstance(e.op, ast.And) else any(vals)
        if isinstance(e, ast.UnaryOp) and isinstance(e.op, ast.Not):
            return not self.ev(e.operand, env)
        if isinstance(e, ast.Constant):
            return bool(e.value)
        if self.atom_kind(e) == 'lin':
            v = env[ast.unparse(e.left)]
            c = e.comparators[0].value
            op = e.ops[0]
            return {ast.Lt: v < c, ast.Gt: v > c, ast.Eq: v == c, ast.NotEq: v != c, ast.LtE: v <= c, ast.GtE: v >= c}[type(op)]
        return env[ast.unparse(e)]


class _Positive(ast.NodeTransformer):
    """opaque atoms in one polarity: `a is not b` is `not (a is b)`, likewise `not in` and a non-numeric `!=`"""

    def visit_Compare(self, n):
        self.generic_visit(n)
        if len(n.ops) == 1 and isinstance(n.ops[0], (ast.IsNot, ast.NotIn, ast.NotEq)):
            if isinstance(n.ops[0], ast.NotEq) and isinstance(n.comparators[0], ast.Constant) and isinstance(n.comparators[0].value, int) \
                    and not isinstance(n.comparators[0].value, bool):
                return n
            pos = {ast.IsNot: ast.Is, ast.NotIn: ast.In, ast.NotEq: ast.Eq}[type(n.ops[0])]()
            return ast.UnaryOp(op=ast.Not(), operand=ast.Compare(left=n.left, ops=[pos], comparators=n.comparators))
        return n


class _NegConst(ast.NodeTransformer):
    def visit_UnaryOp(self, n):
        self.generic_visit(n)
        if isinstance(n.op, ast.USub) and isinstance(n.operand, ast.Constant) and isinstance(n.operand.value, int) and not isinstance(n.operand.value, bool):
            return ast.copy_location(ast.Constant(value=-n.operand.value), n)
        return n


def _canon_ast(text_or_ast, negate=False):
    e = ast.parse(text_or_ast, mode='eval').body if isinstance(text_or_ast, str) else _copy(text_or_ast)
    e = ast.parse(_canon_text_of(e, negate), mode='eval').body
    e = _NegConst().visit(e)
    return ast.fix_missing_locations(_Positive().visit(e))


def equiv(a, b, domain=None):
    """True / False / None (undecided): are two guard formulas (text or AST, constants literal) equivalent?
    `domain` restricts terms: {term text: (lo, hi)} with None for unbounded.  On False, `equiv.witness` holds a
    distinguishing cell."""
    fa, fb = _canon_ast(a), _canon_ast(b)
    if ast.unparse(fa) == ast.unparse(fb):
        return True
    c = _Cells([fa, fb])
    if not c.variables_disjoint():
        cells = c.var_cells()
    else:
        cells = c.cells()
    if cells is None:
        return None
    if domain:
        def inside(env):
            for t, (lo, hi) in domain.items():
                if t in env and ((lo is not None and env[t] < lo) or (hi is not None and env[t] > hi)):
                    return False
            return True
        cells = [e_ for e_ in cells if inside(e_)]
    ga, gb = c.compile(fa), c.compile(fb)
    for env in cells:
        if ga(env) != gb(env):
            equiv.witness = {k: v for k, v in env.items() if not str(k).startswith('$')}
            return False
    return True


equiv.witness = None


def equiv_folded(test, repo, module, expected_text, cls=None, env=None, domain=None):
    """equiv() of a guard in the code (names folded first) with an expected formula given as text"""
    e = _Folder(repo, module, cls, env).visit(_copy(test))
    return equiv(e, expected_text, domain)


# ------------------------------------------------------------------------------------------------ arithmetic normal form
def _is_bytes_expr(e):
    if isinstance(e, ast.Constant) and isinstance(e.value, (bytes, str)):
        return True
    if isinstance(e, ast.Call) and isinstance(e.func, ast.Name) and e.func.id in ('bytes', 'bytearray'):
        return True
    if isinstance(e, ast.Call) and isinstance(e.func, ast.Attribute) and e.func.attr in ('to_bytes', 'digest', 'serialize', 'join', 'pack'):
        return True
    if isinstance(e, ast.BinOp) and isinstance(e.op, (ast.Add, ast.Mult)):
        return _is_bytes_expr(e.left) or _is_bytes_expr(e.right)
    if isinstance(e, ast.Subscript) and isinstance(e.slice, ast.Slice):
        return True
    return False


def _pow2(v):
    return isinstance(v, int) and not isinstance(v, bool) and v > 0 and v & (v - 1) == 0


STRICT_SUM = [False]
_NUMERIC_ATOM = ('Mod(', 'Div(', 'len(', 'ord(', 'int(', 'abs(', 'BitAnd(', 'BitOr(', 'BitXor(', 'RShift(', 'LShift(', 'Pow(', 'Invert(', 'USub(', 'FloorDiv(')


def canon_arith_strict(e):
    """canon_arith that sorts the operands of `+` only where something shows the sum to be one of numbers (a non-zero
    constant, a negated or scaled term, a length, a bit operation): `a + b` of two names may be a concatenation"""
    STRICT_SUM[0] = True
    try:
        return canon_arith(e)
    finally:
        STRICT_SUM[0] = False


def _plain_sum(lin):
    return lin[1] == 0 and len(lin[0]) >= 2 and all(v == 1 for v in lin[0].values()) and not any(k.startswith(_NUMERIC_ATOM) for k in lin[0])


def canon_arith(e):
    """Canonical text of an integer/bytes expression: constants folded, commutative operands sorted, integer-linear parts
    in sum-of-terms form, and the power-of-two spellings unified (x & (2^k-1) = x % 2^k, x >> k = x // 2^k, x << k =
    x * 2^k, x & ~(2^k-1) = x - x % 2^k, bytes(n) = b'\\x00' * n)."""
    if isinstance(e, str):
        e = ast.parse(e, mode='eval').body
    return _ca(e)


def _ca_int(e):
    """constant integer value of e if literal-foldable"""
    try:
        v = ast.literal_eval(ast.unparse(e)) if not any(isinstance(n, (ast.Name, ast.Call, ast.Attribute, ast.Subscript)) for n in ast.walk(e)) else None
    except Exception:
        v = None
    if v is None and not any(isinstance(n, (ast.Name, ast.Call, ast.Attribute, ast.Subscript)) for n in ast.walk(e)):
        try:
            v = eval(compile(ast.Expression(body=e), '<c>', 'eval'), {'__builtins__': {}})  # literals and operators only
        except Exception:
            v = None
    return v if isinstance(v, int) and not isinstance(v, bool) else None


def _ca(e):
    c = _ca_int(e)
    if c is not None:
        return hex(c) if c >= 0 else '-' + hex(-c)
    if isinstance(e, ast.Constant):
        return repr(e.value)
    if isinstance(e, ast.Call) and isinstance(e.func, ast.Name) and e.func.id == 'bytes' and len(e.args) == 1 and not e.keywords \
            and not isinstance(e.args[0], (ast.List, ast.Tuple, ast.Constant)) and not _is_bytes_expr(e.args[0]):
        return "Rep(%s,%s)" % (repr(b'\x00'), _ca(e.args[0]))
    if isinstance(e, ast.BinOp):
        op = type(e.op)
        l, r = e.left, e.right
        lc, rc = _ca_int(l), _ca_int(r)
        if op is ast.BitAnd:
            for x, xc in ((l, rc), (r, lc)):
                if xc is not None and _pow2(xc + 1):
                    return 'Mod(%s,%s)' % (_ca(x), hex(xc + 1))
                if xc is not None and xc < 0 and _pow2(-xc):
                    return _lin_text([(_ca(x), 1), ('Mod(%s,%s)' % (_ca(x), hex(-xc)), -1)], 0)
        if op is ast.Mod and rc is not None and not _is_bytes_expr(l):
            return 'Mod(%s,%s)' % (_ca(l), hex(rc))
        if op is ast.RShift and rc is not None and 0 <= rc < 4096:
            return 'Div(%s,%s)' % (_ca(l), hex(1 << rc))
        if op is ast.FloorDiv and rc is not None:
            return 'Div(%s,%s)' % (_ca(l), hex(rc))
        if op is ast.LShift and rc is not None and 0 <= rc < 4096:
            return _ca(ast.BinOp(left=l, op=ast.Mult(), right=ast.Constant(value=1 << rc)))
        if op in (ast.Add, ast.Sub, ast.Mult) or (isinstance(e.op, ast.Add)):
            if _is_bytes_expr(e):
                if op is ast.Add:
                    return 'Cat(%s,%s)' % (_ca(l), _ca(r))
                if op is ast.Mult:
                    a, b = (l, r) if _is_bytes_expr(l) else (r, l)
                    return 'Rep(%s,%s)' % (_ca(a), _ca(b))
            lin = _ca_linear(e)
            if lin is not None and STRICT_SUM[0] and op is ast.Add and _plain_sum(lin):
                return 'Add(%s,%s)' % (_ca(l), _ca(r))
            if lin is not None:
                return _lin_text(sorted(lin[0].items()), lin[1])
        a, b = _ca(l), _ca(r)
        if op in (ast.BitAnd, ast.BitOr, ast.BitXor, ast.Mult, ast.Add) and not (STRICT_SUM[0] and op is ast.Add):
            a, b = sorted([a, b])
        return '%s(%s,%s)' % (op.__name__, a, b)
    if isinstance(e, ast.UnaryOp):
        if isinstance(e.op, ast.USub):
            lin = _ca_linear(e)
            if lin is not None:
                return _lin_text(sorted(lin[0].items()), lin[1])
        return '%s(%s)' % (type(e.op).__name__, _ca(e.operand))
    if isinstance(e, ast.Call) and isinstance(e.func, ast.Attribute) and e.func.attr == 'join' and len(e.args) == 1 and not e.keywords \
            and isinstance(e.func.value, ast.Constant) and e.func.value.value in (b'', '') and isinstance(e.args[0], (ast.List, ast.Tuple)) and e.args[0].elts:
        # b''.join([a, b, c]) is a + b + c
        parts = [_ca(x) for x in e.args[0].elts]
        out = parts[0]
        for p_ in parts[1:]:
            out = 'Cat(%s,%s)' % (out, p_)
        return out
    if isinstance(e, ast.Call) and isinstance(e.func, ast.Name) and e.func.id in ('bytes', 'bytearray') and len(e.args) == 1 \
            and isinstance(e.args[0], (ast.List, ast.Tuple)) and not e.keywords:
        return 'bytes[%s]' % ','.join(_ca(x) for x in e.args[0].elts)
    if isinstance(e, ast.Call):
        args = [_ca(a) for a in e.args] + ['%s=%s' % (k.arg, _ca(k.value)) for k in e.keywords]
        return '%s(%s)' % (_ca(e.func) if not isinstance(e.func, ast.Name) else e.func.id, ','.join(args))
    if isinstance(e, ast.Attribute):
        return '%s.%s' % (_ca(e.value), e.attr)
    if isinstance(e, ast.Subscript):
        if isinstance(e.slice, ast.Slice):
            lo = _ca(e.slice.lower) if e.slice.lower is not None else ''
            hi = _ca(e.slice.upper) if e.slice.upper is not None else ''
            st = ':' + _ca(e.slice.step) if e.slice.step is not None else ''
            if lo == '0x0':
                lo = ''
            return '%s[%s:%s%s]' % (_ca(e.value), lo, hi, st)
        return '%s[%s]' % (_ca(e.value), _ca(e.slice))
    if isinstance(e, ast.Name):
        return e.id
    if isinstance(e, (ast.Tuple, ast.List)):
        il = isinstance(e, ast.List)
        return ('[' if il else '(') + ','.join(_ca(x) for x in e.elts) + (']' if il else ')')
    if isinstance(e, ast.IfExp):
        return 'If(%s,%s,%s)' % (canon_text(ast.unparse(e.test)), _ca(e.body), _ca(e.orelse))
    if isinstance(e, ast.BoolOp):
        return '%s(%s)' % (type(e.op).__name__, ','.join(_ca(v) for v in e.values))
    if isinstance(e, ast.Compare):
        return 'Cmp(%s%s)' % (_ca(e.left), ''.join(' %s %s' % (type(o).__name__, _ca(c)) for o, c in zip(e.ops, e.comparators)))
    if isinstance(e, (ast.ListComp, ast.GeneratorExp, ast.SetComp)) and all(not g.is_async for g in e.generators):
        gens = ' '.join('for %s in %s%s' % (ast.unparse(g.target), _ca(g.iter), ''.join(' if ' + ast.unparse(i) for i in g.ifs)) for g in e.generators)
        br = {'ListComp': '[%s %s]', 'GeneratorExp': '(%s %s)', 'SetComp': '{%s %s}'}[type(e).__name__]
        return br % (_ca(e.elt), gens)
    return ast.unparse(e)


def _ca_linear(e):
    """({canonical atom: coef}, const) over +, -, * by constants; atoms are canonical texts of everything else"""
    c = _ca_int(e)
    if c is not None:
        return {}, c
    if isinstance(e, ast.UnaryOp) and isinstance(e.op, ast.USub):
        r = _ca_linear(e.operand)
        return ({k: -v for k, v in r[0].items()}, -r[1]) if r else None
    if isinstance(e, ast.BinOp) and isinstance(e.op, (ast.Add, ast.Sub)) and not _is_bytes_expr(e):
        a, b = _ca_linear(e.left), _ca_linear(e.right)
        if a is None or b is None:
            return None
        sg = 1 if isinstance(e.op, ast.Add) else -1
        t = dict(a[0])
        for k, v in b[0].items():
            t[k] = t.get(k, 0) + sg * v
        return {k: v for k, v in t.items() if v}, a[1] + sg * b[1]
    if isinstance(e, ast.BinOp) and isinstance(e.op, ast.Mult) and not _is_bytes_expr(e):
        lc, rc = _ca_int(e.left), _ca_int(e.right)
        if lc is not None or rc is not None:
            k, x = (lc, e.right) if lc is not None else (rc, e.left)
            r = _ca_linear(x)
            if r is not None:
                return {a: v * k for a, v in r[0].items() if v * k}, r[1] * k
        if lc is None and rc is None:
            # a product of two non-constants is one atom: its factors in sorted order
            a_, b_ = sorted([_ca(e.left), _ca(e.right)])
            return {'Mult(%s,%s)' % (a_, b_): 1}, 0
    if isinstance(e, ast.BinOp) and isinstance(e.op, ast.LShift):
        rc = _ca_int(e.right)
        if rc is not None and 0 <= rc < 4096:
            r = _ca_linear(e.left)
            if r is not None:
                return {a: v << rc for a, v in r[0].items()}, r[1] << rc
    if isinstance(e, ast.BinOp) and isinstance(e.op, ast.BitAnd):
        t = _ca(e)
        if t.startswith('Mod(') or not t.startswith('BitAnd('):
            if not t.startswith(('Mod(', 'BitAnd(')):
                # x & ~(2^k-1) expanded to a linear text: re-parse its parts is overkill; treat as one atom
                return {t: 1}, 0
            return {t: 1}, 0
    return {_ca(e): 1}, 0


def _lin_text(items, const):
    parts = []
    for k, c in sorted(items):
        if c == 0:
            continue
        parts.append('%s%s' % ('' if c == 1 else ('-' if c == -1 else '%d*' % c), k))
    if const or not parts:
        parts.append(hex(const) if const >= 0 else '-' + hex(-const))
    return 'Sum(%s)' % ','.join(parts) if len(parts) > 1 else parts[0]
