"""RULES engine: accept/reject guards normalised to canonical comparisons (DESIGN.md 3.6)."""
import ast

from .model import UNKNOWN, OpInt, norm, walk_no_nested
from . import flow

FLIP = {ast.Lt: ast.Gt, ast.Gt: ast.Lt, ast.LtE: ast.GtE, ast.GtE: ast.LtE, ast.Eq: ast.Eq, ast.NotEq: ast.NotEq}
NEG = {ast.Lt: ast.GtE, ast.Gt: ast.LtE, ast.LtE: ast.Gt, ast.GtE: ast.Lt, ast.Eq: ast.NotEq, ast.NotEq: ast.Eq,
       ast.In: ast.NotIn, ast.NotIn: ast.In, ast.Is: ast.IsNot, ast.IsNot: ast.Is}


class _Folder(ast.NodeTransformer):
    def __init__(self, repo, module, cls, env, keep=()):
        self.repo, self.module, self.cls, self.env, self.keep = repo, module, cls, env or {}, set(keep)

    def generic_visit(self, node):
        if isinstance(node, ast.expr) and not isinstance(node, (ast.Constant,)):
            reads_chain = any((isinstance(x, ast.Attribute) and x.attr in ('params', 'coreparams')) or (isinstance(x, ast.Name) and x.id in ('params', 'coreparams'))
                              for x in ast.walk(node))
            if not (isinstance(node, ast.Name) and node.id in self.keep) and not reads_chain:
                v = self.repo.fold(node, self.module, cls=self.cls, env=self.env)
                if isinstance(v, float) and v == int(v):
                    v = int(v)
                if isinstance(v, (int, bytes, str)) and not isinstance(v, bool):
                    return ast.Constant(value=int(v) if isinstance(v, int) else v)
                if v is None or isinstance(v, bool):
                    return ast.Constant(value=v)
        return super().generic_visit(node)


def _copy(e):
    return ast.parse(ast.unparse(e), mode='eval').body


def canon_guard(test, repo, module, cls=None, env=None, negate=False):
    """canonical text of a boolean guard: names folded to constants, constants on the right, `not` pushed inward,
    integer strict/non-strict bounds unified to `>`/`<` forms where the bound is a constant"""
    e = _Folder(repo, module, cls, env).visit(_copy(test))
    e = _push_not(e, negate)
    t = ast.unparse(ast.fix_missing_locations(_order(e)))
    try:
        return ast.unparse(ast.parse(t, mode='eval').body)
    except SyntaxError:
        return t


def _push_not(e, neg):
    if isinstance(e, ast.UnaryOp) and isinstance(e.op, ast.Not):
        return _push_not(e.operand, not neg)
    if isinstance(e, ast.BoolOp):
        vals = [_push_not(v, neg) for v in e.values]
        op = e.op
        if neg:
            op = ast.Or() if isinstance(e.op, ast.And) else ast.And()
        return ast.BoolOp(op=op, values=vals)
    if isinstance(e, ast.Compare):
        if len(e.ops) == 1:
            op = e.ops[0]
            if neg:
                t = NEG.get(type(op))
                if t is None:
                    return ast.UnaryOp(op=ast.Not(), operand=e)
                op = t()
            return ast.Compare(left=e.left, ops=[op], comparators=e.comparators)
        # chained a <= x <= b  ==  a <= x and x <= b
        parts = []
        left = e.left
        for op, right in zip(e.ops, e.comparators):
            parts.append(ast.Compare(left=left, ops=[op], comparators=[right]))
            left = right
        return _push_not(ast.BoolOp(op=ast.And(), values=parts), neg)
    if neg:
        return ast.UnaryOp(op=ast.Not(), operand=e)
    return e


def _order(e):
    if isinstance(e, ast.BoolOp):
        return ast.BoolOp(op=e.op, values=[_order(v) for v in e.values])
    if isinstance(e, ast.Compare) and len(e.ops) == 1:
        l, op, r = e.left, e.ops[0], e.comparators[0]
        if isinstance(l, ast.Constant) and not isinstance(r, ast.Constant) and type(op) in FLIP:
            l, r, op = r, l, FLIP[type(op)]()
        # x >= c  ->  x > c-1 ; x <= c -> x < c+1   (integers)
        if isinstance(r, ast.Constant) and isinstance(r.value, int) and not isinstance(r.value, bool):
            if isinstance(op, ast.GtE):
                op, r = ast.Gt(), ast.Constant(value=r.value - 1)
            elif isinstance(op, ast.LtE):
                op, r = ast.Lt(), ast.Constant(value=r.value + 1)
        return ast.Compare(left=l, ops=[op], comparators=[r])
    return e


def raising_guards(fnode, repo, module, cls=None, env=None, noreturn=()):
    """all `if T: <always raises>` in a function -> [(canonical T, node)]  (assert X counts as `if not X: raise`)"""
    out = []
    for n in walk_no_nested(fnode):
        if isinstance(n, ast.If) and flow.always_raises(n.body, noreturn):
            out.append((canon_guard(n.test, repo, module, cls, env), n))
        elif isinstance(n, ast.If) and n.orelse and flow.always_raises(n.orelse, noreturn) and not (len(n.orelse) == 1 and isinstance(n.orelse[0], ast.If)):
            out.append((canon_guard(n.test, repo, module, cls, env, negate=True), n))
    return out


def check_rule(rule, key, fi, repo, accepted, measure, what, env=None, noreturn=()):
    """find a raising guard whose canonical form is one of `accepted`; otherwise report the guard(s) on `measure`"""
    guards = raising_guards(fi.node, repo, fi.module, fi.cls, env, noreturn)
    for g, n in guards:
        if g in accepted:
            rule.ok(key, '%s:%d' % (fi.module.relpath, n.lineno), '%s: `%s`' % (what, g))
            return n
    near = [(g, n) for g, n in guards if measure in g]
    if near:
        g, n = near[0]
        rule.violated(key, '%s:%d' % (fi.module.relpath, n.lineno), '%s: the guard is `%s`, the rule is `%s`' % (what, g, accepted[0]))
    else:
        rule.violated(key, fi.site, '%s: no raising guard `%s` in %s' % (what, accepted[0], fi.qualname))
    return None
