"""DOM engine: forward must-analysis over structured statements (DESIGN.md 3.8).

Facts are strings; a fact holds at a point iff it holds on every path reaching it.  The statement kinds are those the
repository uses: if/elif/else, for, while, try/except/finally, with, return, raise, continue, break, assert.
"""
import ast

from .model import norm, walk_no_nested


def always_raises(stmts, noreturn_calls=()):
    """does this block end every path with raise (or a call known not to return)?"""
    for s in stmts:
        if isinstance(s, ast.Raise):
            return True
        if isinstance(s, ast.Expr) and isinstance(s.value, ast.Call) and norm(s.value.func) in noreturn_calls:
            return True
        if isinstance(s, ast.If) and s.orelse and always_raises(s.body, noreturn_calls) and always_raises(s.orelse, noreturn_calls):
            return True
    return False


def always_exits(stmts, noreturn_calls=()):
    """every path through the block leaves it (raise / return / continue / break / no-return call)"""
    for s in stmts:
        if isinstance(s, (ast.Raise, ast.Return, ast.Continue, ast.Break)):
            return True
        if isinstance(s, ast.Expr) and isinstance(s.value, ast.Call) and norm(s.value.func) in noreturn_calls:
            return True
        if isinstance(s, ast.If) and s.orelse and always_exits(s.body, noreturn_calls) and always_exits(s.orelse, noreturn_calls):
            return True
    return False


class MustFlow(object):
    def __init__(self, gen=None, cond=None, noreturn_calls=()):
        self.gen = gen or (lambda stmt, facts: facts)
        self.cond = cond or (lambda test: (frozenset(), frozenset()))
        self.noreturn = tuple(noreturn_calls)
        self.exits = []  # (kind, node, facts)
        self.at = {}  # id(stmt) -> facts holding before stmt
        self._ctl = []

    def run(self, body, facts=frozenset()):
        out = self.block(body, frozenset(facts))
        if out is not None:
            self.exits.append(('fallthrough', None, out))
        return out

    def block(self, stmts, facts):
        for s in stmts:
            if facts is None:
                return None
            facts = self.stmt(s, facts)
        return facts

    def cond_facts(self, test):
        """(facts when the test is true, facts when it is false).  What the rule's own `cond` does not recognise as a
        whole is decomposed: `not t` swaps, `a or b` false means both false (true: what both give), `a and b` true means
        both true (false: what both give) - so a recognised test keeps its meaning inside a redundant disjunct or
        conjunct."""
        ft, ff = self.cond(test)
        if ft or ff:
            return frozenset(ft), frozenset(ff)
        if isinstance(test, ast.UnaryOp) and isinstance(test.op, ast.Not):
            t, f = self.cond_facts(test.operand)
            return f, t
        if isinstance(test, ast.BoolOp):
            parts = [self.cond_facts(v) for v in test.values]
            ts = [p[0] for p in parts]
            fs = [p[1] for p in parts]
            if isinstance(test.op, ast.Or):
                t = frozenset.intersection(*ts) if ts else frozenset()
                f = frozenset().union(*fs)
            else:
                t = frozenset().union(*ts)
                f = frozenset.intersection(*fs) if fs else frozenset()
            return t, f
        return frozenset(), frozenset()

    def _loopctl(self):
        return {'continue': [], 'break': []}

    def stmt(self, s, facts):
        self.at[id(s)] = facts
        if isinstance(s, ast.Return):
            self.exits.append(('return', s, facts))
            return None
        if isinstance(s, ast.Raise):
            self.exits.append(('raise', s, facts))
            return None
        if isinstance(s, ast.Continue):
            if not self._ctl:
                # the body of a loop analysed on its own: `continue` ends this iteration
                self.exits.append(('continue', s, facts))
                return None
            self._ctl[-1]['continue'].append(facts)
            return None
        if isinstance(s, ast.Break):
            if not self._ctl:
                self.exits.append(('break', s, facts))
                return None
            self._ctl[-1]['break'].append(facts)
            return None
        if isinstance(s, ast.Expr) and isinstance(s.value, ast.Call) and norm(s.value.func) in self.noreturn:
            f2 = self.gen(s, facts)
            self.exits.append(('raise', s, f2))
            return None
        if isinstance(s, ast.If):
            ft, ff = self.cond_facts(s.test)
            a = self.block(s.body, facts | ft)
            b = self.block(s.orelse, facts | ff)
            if a is None:
                return b
            if b is None:
                return a
            return a & b
        if isinstance(s, (ast.For, ast.While)):
            self._ctl.append(self._loopctl())
            f_in = self.gen(s, facts) if isinstance(s, ast.For) else facts
            body_out = self.block(s.body, f_in)
            ctl = self._ctl.pop()
            # a second pass with the weaker loop-head facts (one widening step is enough for gen-only facts)
            head = f_in
            for c in ctl['continue'] + ([body_out] if body_out is not None else []):
                head = head & c
            if head != f_in:
                self._ctl.append(self._loopctl())
                body_out = self.block(s.body, head)
                ctl = self._ctl.pop()
            outs = [head]
            outs.extend(ctl['break'])
            is_forever = isinstance(s, ast.While) and isinstance(s.test, ast.Constant) and s.test.value is True
            if is_forever:
                outs = list(ctl['break'])
            if s.orelse:
                e = self.block(s.orelse, head)
                outs = [e] if e is not None else []
                outs.extend(ctl['break'])
            res = None
            for o in outs:
                if o is None:
                    continue
                res = o if res is None else (res & o)
            return res
        if isinstance(s, ast.Try):
            t = self.block(s.body, facts)
            outs = []
            if t is not None:
                if s.orelse:
                    t = self.block(s.orelse, t)
                if t is not None:
                    outs.append(t)
            for h in s.handlers:
                ho = self.block(h.body, facts)
                if ho is not None:
                    outs.append(ho)
            res = None
            for o in outs:
                res = o if res is None else (res & o)
            if s.finalbody:
                res = self.block(s.finalbody, res if res is not None else facts)
            return res
        if isinstance(s, ast.With):
            return self.block(s.body, self.gen(s, facts))
        if isinstance(s, (ast.FunctionDef, ast.AsyncFunctionDef, ast.ClassDef)):
            return facts
        return self.gen(s, facts)


def run_must(fnode, gen=None, cond=None, noreturn_calls=(), facts=frozenset()):
    mf = MustFlow(gen, cond, noreturn_calls)
    mf.run(fnode.body if hasattr(fnode, 'body') else fnode, facts)
    return mf


def guard_info(stmt, noreturn_calls=()):
    """`if COND: <always raises>` -> (COND, negated=False) ; `if not COND: raise` keeps COND as written"""
    if isinstance(stmt, ast.If) and always_raises(stmt.body, noreturn_calls):
        return stmt.test
    return None
