"""TOKEN: one-leaf edits of the functions a property is anchored in.

The smallest edit there is changes one leaf of one function's syntax tree and leaves its shape alone: an operator, a
comparison, a constant, a name, a default value.  No behaviour-preserving rewrite looks like that (a respelled constant
parses to the same value; a rewritten comparison changes operator AND operand), while the classic defect does.  TOKEN
compares every function in the property's scope (delta.scope) with the confirmed function stored in the inventory, node
by node.  Where the two trees have the same shape and differ in one or two leaves it asks whether the edit can be shown
harmless:

  * the leaf is message text (a string inside a raise / print / %-format);
  * the leaf sits in a test and the two tests are equivalent as guard formulas (rules.equiv), or each is implied by the
    other under the path condition in front of the test (escape.implied_at);
  * the statement is a dead store of the confirmed function (delta.dead).

Otherwise the function now computes something else on some input and none of the property's own rules said what; the
instance is UNDECIDED (the property's rules report a VIOLATION themselves when they can read the construct).
"""
import ast

from . import delta, common
from .model import norm

OPS = (ast.operator, ast.cmpop, ast.boolop, ast.unaryop)


class _Shape(Exception):
    pass


def _strip_doc(body):
    return [s for s in body if not (isinstance(s, ast.Expr) and isinstance(s.value, ast.Constant) and isinstance(s.value.value, str))]


def leaf_diffs(old, new):
    """[(kind, old leaf, new leaf, ancestors of the new leaf)] or None when the shapes differ"""
    out = []

    def walk(a, b, anc):
        if isinstance(a, OPS) and isinstance(b, OPS):
            if type(a) is not type(b):
                out.append(('op', a, b, list(anc)))
            return
        if isinstance(a, (ast.Break, ast.Continue)) and isinstance(b, (ast.Break, ast.Continue)):
            if type(a) is not type(b):
                out.append(('op', a, b, list(anc)))
            return
        if isinstance(a, ast.AugAssign) and isinstance(b, ast.Assign) and len(b.targets) == 1 or isinstance(a, ast.Assign) and isinstance(b, ast.AugAssign) and len(a.targets) == 1:
            # `x += e` against `x = e`: the accumulation is one token
            ta = a.target if isinstance(a, ast.AugAssign) else a.targets[0]
            tb = b.target if isinstance(b, ast.AugAssign) else b.targets[0]
            if ast.unparse(ta) == ast.unparse(tb) and leaf_diffs(a.value, b.value) == []:
                out.append(('op', a.op if isinstance(a, ast.AugAssign) else ast.UAdd(), b.op if isinstance(b, ast.AugAssign) else ast.UAdd(), list(anc) + [(b, 'value')]))
                return
            raise _Shape()
        if type(a) is not type(b) and anc and anc[-1][1] in ('defaults', 'kw_defaults') and isinstance(anc[-1][0], ast.arguments):
            # a default replaced by a value of another kind (`()` by `None`): one token as far as callers are concerned
            out.append(('const', a, b, list(anc)))
            return
        if type(a) is not type(b) and {type(a), type(b)} == {ast.BinOp, ast.Compare}:
            # `x & M` against `x >= M`: the operator changed its class, the operands stayed
            cmp_, bin_ = (a, b) if isinstance(a, ast.Compare) else (b, a)
            if len(cmp_.ops) == 1 and leaf_diffs(cmp_.left, bin_.left) == [] and leaf_diffs(cmp_.comparators[0], bin_.right) == []:
                out.append(('op', a.ops[0] if a is cmp_ else a.op, b.ops[0] if b is cmp_ else b.op, list(anc)))
                return
        if type(a) is not type(b):
            # a `not` dropped or added in front of an otherwise identical expression is one token
            for x, y, what in ((a, b, 'not dropped'), (b, a, 'not added')):
                if isinstance(x, ast.UnaryOp) and isinstance(x.op, ast.Not) and type(x.operand) is type(y):
                    sub = leaf_diffs(x.operand, y) if what == 'not dropped' else leaf_diffs(y, x.operand)
                    if sub == []:
                        out.append(('op', ast.Not() if what == 'not dropped' else ast.UAdd(), ast.UAdd() if what == 'not dropped' else ast.Not(), list(anc)))
                        return
            raise _Shape()
        if isinstance(a, ast.Constant):
            if type(a.value) is not type(b.value) or a.value != b.value:
                out.append(('const', a, b, list(anc)))
            return
        for f, va in ast.iter_fields(a):
            if f in ('ctx', 'type_comment', 'kind', 'lineno', 'col_offset', 'end_lineno', 'end_col_offset'):
                continue
            vb = getattr(b, f, None)
            if isinstance(va, list):
                if not isinstance(vb, list):
                    raise _Shape()
                la, lb = va, vb
                if f in ('body', 'orelse', 'finalbody') and la and isinstance(la[0], ast.stmt) or (lb and isinstance(lb[0], ast.stmt)):
                    la, lb = _strip_doc(la), _strip_doc(lb)
                    la = [s for s in la if not isinstance(s, ast.Pass)] if len(la) > 1 else la
                    lb = [s for s in lb if not isinstance(s, ast.Pass)] if len(lb) > 1 else lb
                if len(la) != len(lb) and f == 'args' and isinstance(a, ast.Call) and abs(len(la) - len(lb)) == 1:
                    # one argument dropped or added, the others unchanged (`pop(0)` / `pop()`)
                    long_, short_ = (la, lb) if len(la) > len(lb) else (lb, la)
                    hit = None
                    for k_ in range(len(long_)):
                        rest = long_[:k_] + long_[k_ + 1:]
                        if all(leaf_diffs(x_, y_) == [] for x_, y_ in zip(rest, short_)):
                            hit = k_
                            break
                    if hit is None:
                        raise _Shape()
                    out.append(('arg', long_[hit] if long_ is la else None, long_[hit] if long_ is lb else None, list(anc) + [(b, f)]))
                    continue
                if len(la) != len(lb):
                    raise _Shape()
                for x, y in zip(la, lb):
                    if isinstance(x, ast.AST) and isinstance(y, ast.AST):
                        walk(x, y, anc + [(b, f)])
                    elif x != y:
                        out.append((_kind(b, f), x, y, list(anc) + [(b, f)]))
            elif isinstance(va, ast.AST):
                if not isinstance(vb, ast.AST):
                    if vb is None and isinstance(a, ast.Slice):
                        out.append(('const', va, ast.Constant(value=None), list(anc) + [(b, f)]))
                        continue
                    raise _Shape()
                walk(va, vb, anc + [(b, f)])
            elif va is None and isinstance(vb, ast.AST) and isinstance(a, ast.Slice):
                out.append(('const', ast.Constant(value=None), vb, list(anc) + [(b, f)]))
            elif va != vb:
                if isinstance(vb, ast.AST) or isinstance(va, ast.AST):
                    raise _Shape()
                out.append((_kind(b, f), va, vb, list(anc) + [(b, f)]))
    try:
        walk(old, new, [])
    except _Shape:
        return None
    return out


def _kind(node, field):
    if isinstance(node, ast.Name) and field == 'id':
        return 'name'
    if isinstance(node, ast.arg) and field == 'arg':
        return 'name'
    if isinstance(node, ast.Attribute) and field == 'attr':
        return 'attr'
    return 'ident'


def _swapped(diffs, old, new):
    """the leaves differ only because two neighbouring statements changed places"""
    stmts = []
    for kind, a, b, anc in diffs:
        st = next((n for n, f in reversed(anc) if isinstance(n, ast.stmt)), None)
        if st is None:
            return False
        if not any(st is x for x in stmts):
            stmts.append(st)
    if len(stmts) != 2:
        return False
    o1, o2 = _counterpart(old, new, stmts[0]), _counterpart(old, new, stmts[1])
    if o1 is None or o2 is None:
        return False
    if not (ast.unparse(o1) == ast.unparse(stmts[1]) and ast.unparse(o2) == ast.unparse(stmts[0])):
        return False
    _swapped.last = (stmts[0], stmts[1])
    # two statements may change places unnoticed only if neither reads what the other writes and at most one of them calls
    # anything (two calls may touch the same object: stack.pop() / stack.append())
    def rw(st):
        reads = {n.id for n in ast.walk(st) if isinstance(n, ast.Name) and isinstance(n.ctx, ast.Load)}
        writes = {n.id for n in ast.walk(st) if isinstance(n, ast.Name) and isinstance(n.ctx, (ast.Store, ast.Del))}
        writes |= {ast.unparse(n.value) for n in ast.walk(st) if isinstance(n, (ast.Attribute, ast.Subscript)) and isinstance(n.ctx, (ast.Store, ast.Del)) and isinstance(n.value, ast.Name)}
        # a call may change its receiver and its arguments; library modules (_ssl, struct, hashlib, ...) hold no state of ours
        MODS = {'_ssl', 'struct', 'hashlib', 'binascii', 'bitcoin', 'ctypes', 'math', 'os', 'json', 'base64'}
        touched = set()
        for n in ast.walk(st):
            if isinstance(n, ast.Call):
                f = n.func
                root = f
                while isinstance(root, ast.Attribute):
                    root = root.value
                if isinstance(root, ast.Name) and root.id not in MODS and isinstance(f, ast.Attribute):
                    touched.add(root.id)
                if isinstance(f, ast.Name) and f.id not in ('len', 'int', 'bytes', 'str', 'repr', 'tuple', 'list', 'min', 'max', 'range', 'isinstance', 'ord', 'chr', 'bool'):
                    touched.add('<call %s>' % f.id)
                for a_ in n.args:
                    for x in ast.walk(a_):
                        if isinstance(x, ast.Name):
                            touched.add(x.id)
        return reads, writes | touched, 0
    r1, w1, c1 = rw(stmts[0])
    r2, w2, c2 = rw(stmts[1])
    plain = lambda ws: {w for w in ws if w.startswith('<call')}
    if (w1 & (r2 | w2)) or (w2 & r1) or (plain(w1) and plain(w2)):
        return 'dependent'
    if isinstance(stmts[0], (ast.Return, ast.Raise, ast.Break, ast.Continue)) or isinstance(stmts[1], (ast.Return, ast.Raise, ast.Break, ast.Continue)):
        return 'dependent'
    return True


_swapped.last = None


TEST_FIELDS = {(ast.If, 'test'), (ast.While, 'test'), (ast.Assert, 'test'), (ast.IfExp, 'test'), (ast.comprehension, 'ifs')}


def _test_root(anc):
    """the test expression the leaf belongs to -> (node holding the test, field, index in ancestors) or None.  A test is
    the test of an if / while / assert / conditional expression / comprehension filter, or the outermost comparison or
    boolean expression around the leaf (`return len(self) > 0`)"""
    for k in range(len(anc) - 1, -1, -1):
        n, f = anc[k]
        if (type(n), f) in TEST_FIELDS:
            return n, f, k
        if isinstance(n, ast.stmt):
            break
    best = None
    for k in range(len(anc) - 1, -1, -1):
        n, f = anc[k]
        if isinstance(n, ast.stmt):
            break
        if isinstance(n, (ast.Compare, ast.BoolOp)) or (isinstance(n, ast.UnaryOp) and isinstance(n.op, ast.Not)):
            best = k
    if best is not None and best > 0:
        holder, field = anc[best - 1]
        return holder, field, best - 1
    return None


def _arith_root(anc):
    """the outermost arithmetic expression (a chain of BinOp / UnaryOp) around the leaf -> index in ancestors"""
    best = None
    for k in range(len(anc) - 1, -1, -1):
        n, f = anc[k]
        if isinstance(n, ast.stmt):
            break
        if isinstance(n, (ast.BinOp, ast.UnaryOp)):
            best = k
        elif best is None and isinstance(n, (ast.Name, ast.Attribute, ast.Constant)):
            continue  # the leaf's own node (a name's identifier, an attribute's name)
        else:
            break
    return best


def _message(anc, a, b):
    if not (isinstance(a, ast.Constant) and isinstance(b, ast.Constant) and isinstance(a.value, (str, bytes)) and isinstance(a.value, type(b.value))):
        return False
    for n, f in reversed(anc):
        if isinstance(n, ast.BinOp) and isinstance(n.op, ast.Mod) and f == 'left':
            return True
        if isinstance(n, ast.Raise):
            return True
        if isinstance(n, ast.Call) and norm(n.func) in ('print',):
            return True
        if isinstance(n, ast.stmt):
            break
    return False


def rule_token(ctx, rid):
    inv = delta.inventory()
    fns = delta.scope(ctx.prop)
    r = ctx.rule(rid, 'no one-leaf edit (operator, comparison, constant, name, default) of a function in the property\'s scope goes unexplained', engine='TOKEN',
                 floor=max(1, len(fns) // 2))
    from .rules import equiv, _Folder, _copy
    from .escape import implied_at
    for q in fns:
        known = None
        for m in inv['modules'].values():
            if q in m['functions']:
                known = m['functions'][q]
        fi = ctx.repo.functions.get(q)
        key = q.replace('bitcoin.', '')
        if known is None or not known.get('source') or fi is None:
            continue
        try:
            old = ast.parse(known['source']).body[0]
        except SyntaxError:
            continue
        # the function as written (before LOWER / DESUGAR / RESTORE touched it): a token edit is a fact about the source
        raw = _raw_function(ctx.repo, fi)
        cur = raw if raw is not None else fi.node
        diffs = leaf_diffs(old, cur)
        if diffs is None and cur is not fi.node:
            cur = fi.node
            diffs = leaf_diffs(old, cur)
        if diffs is None:
            r.ok(key, fi.site, 'rewritten (shape differs from the confirmed function): left to the property\'s own rules')
            continue
        if not diffs:
            r.ok(key, fi.site, 'identical to the confirmed function')
            continue
        if cur is not fi.node and any(d_[0] == 'arg' for d_ in diffs) and leaf_diffs(old, fi.node) == []:
            # a call written with one argument fewer or more that the exact pre-passes read as the confirmed call
            # (`_UINT32.pack(x)` with `_UINT32 = struct.Struct('<I')` is `struct.pack('<I', x)`)
            r.ok(key, fi.site, 'read as the confirmed function by the pre-passes')
            continue
        diffs = _without_renames(diffs, old)
        sw = _swapped(diffs, old, cur) if diffs else False
        if sw is True:
            r.ok(key, fi.site, 'two independent neighbouring statements changed places')
            continue
        if sw == 'dependent':
            a_, b_ = _swapped.last
            r.undecided('edit:%s:swap' % key, common.site_of(fi, a_), 'two neighbouring statements of %s changed places (`%s` / `%s`) and one uses what the other writes, or both call: the order is part of what they compute'
                        % (fi.name, norm(a_)[:50], norm(b_)[:50]))
            continue
        if not diffs:
            r.ok(key, fi.site, 'identical to the confirmed function up to the names of locals')
            continue
        if len(diffs) > 2:
            r.ok(key, fi.site, '%d leaves differ: not a token edit, left to the property\'s own rules' % len(diffs))
            continue
        dom = _domains(cur)
        delta._parents(old)
        for kind, a, b, anc in diffs:
            what = '%s -> %s' % (_show(a), _show(b))
            k2 = 'edit:%s:%s' % (key, what[:40])
            if _message(anc, a, b):
                r.ok(k2, fi.site, 'message text')
                continue
            if anc and isinstance(anc[-1][0], ast.Slice) and anc[-1][1] == 'lower' and kind == 'const' and isinstance(a, ast.Constant) and isinstance(b, ast.Constant) \
                    and {repr(a.value), repr(b.value)} == {'None', '0'}:
                r.ok(k2, fi.site, 'a lower bound of 0 is no lower bound')
                continue
            if anc and isinstance(anc[-1][0], ast.Slice) and anc[-1][1] == 'step' and kind == 'const' and isinstance(a, ast.Constant) and isinstance(b, ast.Constant) \
                    and {repr(a.value), repr(b.value)} == {'None', '1'}:
                r.ok(k2, fi.site, 'a step of 1 is no step')
                continue
            tr = _test_root(anc)
            stmt_new = next((n for n, f in reversed(anc) if isinstance(n, ast.stmt)), None)
            why_ = ctx.explained.get((fi.qualname, getattr(stmt_new, 'lineno', -1), None)) or ctx.explained.get((fi.qualname, getattr(stmt_new, 'lineno', -1), _default_of(anc, a, b)))
            if why_:
                r.ok(k2, common.site_of(fi, stmt_new), 'decided by a rule of this property: ' + why_)
                continue
            at_ = next((n for n, f in reversed(anc[-2:]) if isinstance(n, ast.Attribute)), None)
            if kind == 'name' and at_ is not None and at_.attr in ('__setattr__', '__delattr__') and isinstance(b, str) and stmt_new is not None:
                # the exact pre-pass that resolves `C.__setattr__` to object's (no class of C's MRO defines it) has read this one
                mark = '%s:%d %s.%s resolves to object.' % (fi.module.relpath, at_.lineno, b, at_.attr)
                if any(l_.startswith(mark) for l_ in getattr(ctx.repo, 'desugar_log', []) or []):
                    r.ok(k2, common.site_of(fi, stmt_new), 'resolved by the MRO: ' + mark.split(' ', 1)[1] + 'the same slot')
                    continue
            if kind == 'arg':
                why_arg = _harmless_arg(anc, a, b, ctx.repo, fi)
                if why_arg:
                    r.ok(k2, common.site_of(fi, stmt_new) if stmt_new is not None else fi.site, why_arg)
                    continue
            if _struct_format(anc, a, b):
                r.ok(k2, common.site_of(fi, stmt_new) if stmt_new is not None else fi.site, 'with a byte-order prefix the struct codes L/I (and l/i) are the same four-byte field')
                continue
            if _whole_reversal(anc, a, b):
                r.ok(k2, fi.site, 'with a step of -1 a lower bound of -1 is no lower bound')
                continue
            if kind == 'const' and _truthiness_only(ctx.repo, anc, a, b):
                r.ok(k2, common.site_of(fi, stmt_new) if stmt_new is not None else fi.site, 'the callee only tests the truth of this argument, and both constants have the same truth value')
                continue
            if tr is not None:
                holder, field, k = tr
                new_test = getattr(holder, field)
                if isinstance(new_test, list) or not isinstance(new_test, ast.expr) or (type(holder), field) not in TEST_FIELDS:
                    new_test = anc[k + 1][0] if k + 1 < len(anc) else None
                old_test = _counterpart(old, cur, new_test)
                v = None
                if old_test is not None and new_test is not None:
                    try:
                        e1 = _Folder(ctx.repo, fi.module, fi.cls, None).visit(_copy(old_test))
                        e2 = _Folder(ctx.repo, fi.module, fi.cls, None).visit(_copy(new_test))
                        v = equiv(e1, e2)
                        if v is not True and stmt_new is not None:
                            # locals that are plain copies of a parameter or constant, written out on both sides
                            old_stmt_ = _counterpart(old, cur, stmt_new)
                            if old_stmt_ is not None:
                                c1 = _Folder(ctx.repo, fi.module, fi.cls, None).visit(_copyprop(old, old_test, old_stmt_))
                                c2 = _Folder(ctx.repo, fi.module, fi.cls, None).visit(_copyprop(cur, new_test, stmt_new))
                                if equiv(c1, c2) is True:
                                    v = True
                        if v is not True:
                            for c_ in _constraints(cur):
                                if c_.split(' <= ')[0] in ast.unparse(e2) and equiv('(%s) and (%s)' % (ast.unparse(e1), c_), '(%s) and (%s)' % (ast.unparse(e2), c_)) is True:
                                    v = True
                        if v is not True:
                            from .rules import canon_arith_strict
                            if canon_arith_strict(e1) == canon_arith_strict(e2):
                                v = True  # the same value, not just the same truth value
                        if v is not True and dom:
                            d_ = {t: rng for t, rng in dom.items() if t in ast.unparse(e1) or t in ast.unparse(e2)}
                            if d_ and equiv(e1, e2, domain=d_) is True:
                                v = True
                    except Exception:
                        v = None
                    if v is not True:
                        try:
                            t1, t2 = ast.unparse(old_test), ast.unparse(new_test)
                            try:
                                t1, t2 = ast.unparse(e1), ast.unparse(e2)  # constants written out, as in the path condition
                            except Exception:
                                pass
                            # the path condition is read off the analysed tree (parent links, pre-passes applied)
                            holder_ = holder if isinstance(holder, ast.stmt) else stmt_new
                            holder_ = _counterpart_in_repo(ctx.repo, fi, cur, holder_) if holder_ is not None else None
                            if holder_ is not None and isinstance(holder_, ast.stmt) and not isinstance(holder, ast.stmt):
                                # a test inside an expression: the operands before it in an and/or chain count too
                                sub_ = _counterpart_in_repo(ctx.repo, fi, cur, new_test)
                                holder_ = sub_ if sub_ is not None else holder_
                            if holder_ is None:
                                raise ValueError('no counterpart')
                            holder = holder_
                            if implied_at(ctx.repo, fi, holder, '(not (%s)) or (%s)' % (t1, t2)) is True and implied_at(ctx.repo, fi, holder, '(not (%s)) or (%s)' % (t2, t1)) is True:
                                v = True
                        except Exception:
                            pass
                if v is True:
                    r.ok(k2, common.site_of(fi, holder), 'the test is equivalent to the confirmed one')
                    continue
                r.undecided(k2, common.site_of(fi, holder if hasattr(holder, 'lineno') else fi.node), 'a test of %s changed in one token (%s): `%s` is not equivalent to the confirmed `%s`, and no rule of this property decides what that does'
                            % (fi.name, what, norm(new_test)[:70] if new_test is not None else '?', norm(old_test)[:70] if old_test is not None else '?'))
                continue
            # slice bounds: a lower bound 0 is the same as none; an upper bound may be dropped (or added) where the sequence is
            # known to end there
            if anc and isinstance(anc[-1][0], ast.Slice) and kind == 'const' and isinstance(a, ast.Constant) and isinstance(b, ast.Constant) and (a.value is None or b.value is None):
                fld = anc[-1][1]
                val = b.value if a.value is None else a.value
                if fld == 'lower' and val == 0:
                    r.ok(k2, fi.site, 'a lower bound of 0 is no lower bound')
                    continue
                sub = next((n for n, f in reversed(anc) if isinstance(n, ast.Subscript)), None)
                if fld == 'upper' and sub is not None and isinstance(val, int) and stmt_new is not None:
                    seq = ast.unparse(sub.value)
                    try:
                        here = _counterpart_in_repo(ctx.repo, fi, cur, stmt_new)
                        if here is not None and (implied_at(ctx.repo, fi, here, 'len(%s) == %d' % (seq, val)) is True or implied_at(ctx.repo, fi, here, 'len(%s) <= %d' % (seq, val)) is True):
                            r.ok(k2, fi.site, 'the sequence is known to end at %d there' % val)
                            continue
                    except Exception:
                        pass
            # an upper slice bound moved, both the old and the new one at or beyond the known end of the sequence
            if anc and isinstance(anc[-1][0], ast.Slice) and anc[-1][1] == 'upper' and kind == 'const' and isinstance(a, ast.Constant) and isinstance(b, ast.Constant) \
                    and type(a.value) is int and type(b.value) is int and a.value >= 0 and b.value >= 0 and stmt_new is not None:
                sub = next((n for n, f in reversed(anc) if isinstance(n, ast.Subscript)), None)
                try:
                    here = _counterpart_in_repo(ctx.repo, fi, cur, stmt_new)
                    if sub is not None and here is not None and implied_at(ctx.repo, fi, here, 'len(%s) <= %d' % (ast.unparse(sub.value), min(a.value, b.value))) is True:
                        r.ok(k2, fi.site, 'the sequence is known to end at or before %d there' % min(a.value, b.value))
                        continue
                except Exception:
                    pass
            ar = _arith_root(anc)
            if ar is not None:
                new_e = anc[ar][0]
                old_e = _counterpart(old, cur, new_e)
                try:
                    from .rules import canon_arith_strict as canon_arith
                    if old_e is not None and canon_arith(old_e) == canon_arith(new_e):
                        r.ok(k2, fi.site, 'the arithmetic expression has the same normal form as the confirmed one')
                        continue
                except Exception:
                    pass
            if any(isinstance(n, ast.arguments) for n, f in anc):
                r.undecided(k2, fi.site, 'a default value in the signature of %s changed (%s); callers that rely on the default now get something else' % (fi.name, what))
                continue
            old_stmt = _counterpart(old, cur, stmt_new) if stmt_new is not None else None
            if old_stmt is not None and delta.dead(old, old_stmt):
                r.ok(k2, common.site_of(fi, stmt_new), 'dead store of the confirmed function')
                continue
            r.undecided(k2, common.site_of(fi, stmt_new) if stmt_new is not None else fi.site, 'one token of `%s` in %s changed (%s) and no rule of this property reads it'
                        % (norm(stmt_new)[:70] if stmt_new is not None else '?', fi.name, what))


def _copyprop(fn, expr, at):
    """`expr` (standing in statement `at` of function `fn`) with the locals that are plain copies written out: a name
    assigned exactly once in the function, by `x = <name or constant>` in a block that encloses `at` and before it, where
    the copied name is itself never assigned in the function (a parameter, a global)"""
    stores = {}
    for n in ast.walk(fn):
        if isinstance(n, ast.Name) and isinstance(n.ctx, (ast.Store, ast.Del)):
            stores[n.id] = stores.get(n.id, 0) + 1
        elif isinstance(n, (ast.Global, ast.Nonlocal)):
            for nm in n.names:
                stores[nm] = stores.get(nm, 0) + 2
    path = _path_to(fn, at)
    if path is None:
        return expr
    defs = {}
    cur = fn
    for f, i in path:
        v = getattr(cur, f, None)
        if i is None:
            cur = v
            continue
        if f in ('body', 'orelse', 'finalbody') and isinstance(v, list) and v and isinstance(v[0], ast.stmt):
            v = _strip_doc(v)
            v = [s for s in v if not isinstance(s, ast.Pass)] if len(v) > 1 else v
            for s in v[:i]:
                if isinstance(s, ast.Assign) and len(s.targets) == 1 and isinstance(s.targets[0], ast.Name) and stores.get(s.targets[0].id) == 1:
                    val = s.value
                    if isinstance(val, ast.Constant) or (isinstance(val, ast.Name) and val.id not in stores):
                        defs[s.targets[0].id] = val
        cur = v[i] if isinstance(v, list) and i < len(v) else None
        if cur is None:
            break
    if not defs:
        return expr

    class S(ast.NodeTransformer):
        def visit_Name(self, n):
            if isinstance(n.ctx, ast.Load) and n.id in defs:
                return ast.copy_location(ast.parse(ast.unparse(defs[n.id]), mode='eval').body, n)
            return n
    return ast.fix_missing_locations(S().visit(ast.parse(ast.unparse(expr), mode='eval').body))


def _default_at(repo, fi, call, pos):
    """(value, parameter name) of the default of the positional parameter `pos` of the function or class a call names
    exactly (a module-level name, or `Class.method` with the class named), when that default folds to a constant"""
    from .model import ClassRef, FuncRef, UNKNOWN
    target = None
    bound = 0
    try:
        v = repo.fold(call.func, fi.module, cls=fi.cls)
    except Exception:
        v = UNKNOWN
    if isinstance(v, FuncRef):
        target = v.info
        if isinstance(call.func, ast.Attribute) and target.cls is not None and target.params[:1] and target.params[0] in ('self', 'cls') and target.kind in ('classmethod',):
            bound = 1
    elif isinstance(v, ClassRef):
        target = repo.lookup_method(v.info, '__init__')
        if repo.lookup_method(v.info, '__new__') is not None and target is not None:
            return None
        target = target or repo.lookup_method(v.info, '__new__')
        bound = 1
    elif isinstance(call.func, ast.Attribute) and isinstance(call.func.value, ast.Name):
        try:
            cv = repo.fold(call.func.value, fi.module, cls=fi.cls)
        except Exception:
            cv = UNKNOWN
        if isinstance(cv, ClassRef):
            target = repo.lookup_method(cv.info, call.func.attr)
            if target is not None and target.kind == 'classmethod':
                bound = 1
            elif target is not None and target.kind != 'staticmethod':
                return None
    if target is None:
        return None
    k = pos + bound
    if k >= len(target.params):
        return None
    p = target.params[k]
    d = target.defaults().get(p)
    if d is None:
        return None
    try:
        dv = repo.fold(d, target.module, cls=target.cls)
    except Exception:
        return None
    if dv is UNKNOWN:
        return None
    return dv, p


def _harmless_arg(anc, a, b, repo=None, fi=None):
    """an argument dropped (b None) or added (a None) that says what the call does anyway -> reason or None"""
    if not anc or not isinstance(anc[-1][0], ast.Call):
        return None
    call = anc[-1][0]                      # the call as it stands now
    arg = a if b is None else b
    n_now = len(call.args)
    n_long = n_now + 1 if b is None else n_now
    fn = ast.unparse(call.func)
    const = arg.value if isinstance(arg, ast.Constant) else None
    is_lit = isinstance(arg, ast.Constant)
    if isinstance(arg, ast.UnaryOp) and isinstance(arg.op, ast.USub) and isinstance(arg.operand, ast.Constant) and type(arg.operand.value) in (int, float):
        const, is_lit = -arg.operand.value, True
    if call.keywords:
        return None
    if fn == 'range' and n_long == 2 and type(const) is int and const == 0:
        # the dropped/added one must be the first of the two
        first_now = call.args[0] if call.args else None
        if (b is None) or (first_now is b):
            return 'range(0, n) is range(n)'
    if fn.startswith('ctypes.c_') and n_long == 1 and type(const) is int and const == 0:
        return 'a ctypes scalar starts at zero'
    if isinstance(call.func, ast.Attribute) and call.func.attr in ('decode', 'encode') and n_long == 1 and isinstance(const, str):
        cname = const.lower().replace('-', '').replace('_', '')
        if cname == 'utf8':
            return 'utf-8 is the default codec'
        recv = call.func.value
        if call.func.attr == 'decode' and cname in ('ascii', 'latin1', 'iso88591') and isinstance(recv, ast.Call) \
                and (ast.unparse(recv.func) in ('binascii.hexlify', 'binascii.b2a_hex') or (isinstance(recv.func, ast.Attribute) and recv.func.attr == 'hex')):
            return 'hex digits decode the same under ascii and utf-8'
    if repo is not None and is_lit:
        dflt = _default_at(repo, fi, call, n_long - 1)
        if dflt is not None and type(dflt[0]) is type(const) and dflt[0] == const:
            return 'the argument restates the default of `%s`' % dflt[1]
    if isinstance(call.func, ast.Attribute) and call.func.attr == 'split' and n_long == 2 and type(const) is int and const >= 1:
        # x.split(sep, k)[0] is x.split(sep)[0]: the first piece ends at the first separator either way
        up = anc[-2][0] if len(anc) > 1 else None
        if isinstance(up, ast.Subscript) and isinstance(up.slice, ast.Constant) and up.slice.value == 0 and type(up.slice.value) is int \
                and (b is None or (len(call.args) == 2 and call.args[1] is b)):
            return 'the first piece of a split does not depend on how many later splits are made'
    return None


def _default_of(anc, a, b):
    """'default:<parameter>' when the leaf is (inside) the default value of a parameter"""
    for k, (n, f) in enumerate(anc):
        if isinstance(n, ast.arguments) and f in ('defaults', 'kw_defaults'):
            top = anc[k + 1][0] if k + 1 < len(anc) else b
            lst = getattr(n, f)
            idx = next((i for i, x in enumerate(lst) if x is top), None)
            if idx is None:
                return None
            if f == 'kw_defaults':
                return 'default:%s' % n.kwonlyargs[idx].arg
            pos = list(n.posonlyargs) + list(n.args)
            return 'default:%s' % pos[len(pos) - len(lst) + idx].arg
    return None


def _struct_format(anc, a, b):
    """a format string of a struct call that differs only in L/I or l/i under an explicit byte order"""
    if not (isinstance(a, ast.Constant) and isinstance(b, ast.Constant) and type(a.value) is type(b.value) and isinstance(a.value, (bytes, str))):
        return False
    call = next((n for n, f in reversed(anc) if isinstance(n, ast.Call)), None)
    if call is None or not call.args or call.args[0] is not b:
        return False
    fn = ast.unparse(call.func)
    if fn not in ('struct.pack', 'struct.unpack', 'struct.unpack_from', 'struct.pack_into', 'struct.calcsize', 'struct.Struct', 'struct.iter_unpack'):
        return False
    fa = a.value.decode('latin1') if isinstance(a.value, bytes) else a.value
    fb = b.value.decode('latin1') if isinstance(b.value, bytes) else b.value
    if fa[:1] not in '<>=!' or fa[:1] != fb[:1] or not fa:
        return False
    import re as _re
    nrm = lambda s_: _re.sub(r'(\d+)([a-zA-Z?])', lambda m_: m_.group(0) if m_.group(2) in 'sp' else m_.group(2) * int(m_.group(1)), s_.replace(' ', '')).replace('L', 'I').replace('l', 'i')
    return nrm(fa) == nrm(fb)


def _whole_reversal(anc, a, b):
    """x[-1::-1] and x[::-1]"""
    if not (anc and isinstance(anc[-1][0], ast.Slice) and anc[-1][1] == 'lower'):
        return False
    sl = anc[-1][0]
    def minus_one(e):
        return isinstance(e, ast.UnaryOp) and isinstance(e.op, ast.USub) and isinstance(e.operand, ast.Constant) and e.operand.value == 1
    none = lambda e: e is None or (isinstance(e, ast.Constant) and e.value is None)
    if not (sl.step is not None and minus_one(sl.step) and sl.upper is None):
        return False
    return (none(a) and minus_one(b)) or (minus_one(a) and none(b))


def _truthiness_only(repo, anc, a, b):
    """a constant argument of a call replaced by another constant of the same truth value, where every function of that
    name in the library only ever tests the truth of the parameter"""
    if not (isinstance(a, ast.Constant) and isinstance(b, ast.Constant)) or bool(a.value) != bool(b.value):
        return False
    if not all(v is None or isinstance(v, (bool, int)) for v in (a.value, b.value)):
        return False
    if not anc or not isinstance(anc[-1][0], (ast.Call, ast.keyword)):
        return False
    if isinstance(anc[-1][0], ast.keyword):
        kw = anc[-1][0].arg
        call = anc[-2][0] if len(anc) > 1 and isinstance(anc[-2][0], ast.Call) else None
        pos = None
    else:
        call, kw = anc[-1][0], None
        if anc[-1][1] != 'args':
            return False
        pos = next((i for i, x in enumerate(call.args) if x is b), None)
        if pos is None or any(isinstance(x, ast.Starred) for x in call.args[:pos + 1]):
            return False
    if call is None or kw is None and pos is None:
        return False
    name = call.func.attr if isinstance(call.func, ast.Attribute) else call.func.id if isinstance(call.func, ast.Name) else None
    cands = [g for g in repo.functions.values() if g.name == name]
    if not name or not cands:
        return False
    for g in cands:
        params = list(g.params)
        bound = isinstance(call.func, ast.Attribute) and g.cls is not None and params[:1] and params[0] in ('self', 'cls')
        if kw is not None:
            p = kw if kw in params else None
        else:
            k = pos + (1 if bound else 0)
            p = params[k] if k < len(params) else None
        if p is None:
            return False
        par = {}
        for n in ast.walk(g.node):
            for c in ast.iter_child_nodes(n):
                par[id(c)] = n
        def boolean(n):
            up = par.get(id(n))
            if isinstance(up, (ast.If, ast.While, ast.IfExp, ast.Assert)) and up.test is n:
                return True
            if isinstance(up, ast.UnaryOp) and isinstance(up.op, ast.Not):
                return True
            if isinstance(up, ast.BoolOp):
                return boolean(up)
            return False
        for n in ast.walk(g.node):
            if isinstance(n, ast.Name) and n.id == p:
                if not isinstance(n.ctx, ast.Load) or not boolean(n):
                    return False
    return True


def _without_renames(diffs, old):
    """drop the name leaves that are a complete, consistent renaming of a local of the confirmed function"""
    names = [(a, b) for kind, a, b, anc in diffs if kind == 'name' and isinstance(a, str) and isinstance(b, str)]
    if not names:
        return diffs
    pairs = {}
    for a, b in names:
        pairs.setdefault(a, set()).add(b)
    occ = {}
    for n in ast.walk(old):
        if isinstance(n, ast.Name):
            occ[n.id] = occ.get(n.id, 0) + 1
        elif isinstance(n, ast.arg):
            occ[n.arg] = occ.get(n.arg, 0) + 1
    # only a local can be renamed: a name the confirmed function binds (assignment, loop or with target, handler name,
    # parameter).  A global it merely reads - an exception class, a helper, a constant - replaced by another is an edit.
    bound = set()
    for n in ast.walk(old):
        if isinstance(n, ast.Name) and isinstance(n.ctx, (ast.Store, ast.Del)):
            bound.add(n.id)
        elif isinstance(n, ast.arg):
            bound.add(n.arg)
        elif isinstance(n, ast.ExceptHandler) and n.name:
            bound.add(n.name)
    renamed = set()
    for a, bs in pairs.items():
        if a not in bound:
            continue
        # a name the confirmed function does not have at all is a new local (a complete renaming, or a second name for a
        # re-assigned value); a defect of the "wrong variable" kind uses a name that is already there
        if len(bs) == 1 and next(iter(bs)) not in occ:
            renamed.add(a)
    return [d for d in diffs if not (d[0] == 'name' and d[1] in renamed)]


def _constraints(fnode):
    """relations that follow from how a local is built: x = <seq>[a:a + n] (possibly through bytes()/bytearray()) has
    len(x) <= n"""
    out = []
    defs = {}
    for n in ast.walk(fnode):
        if isinstance(n, ast.Assign) and len(n.targets) == 1 and isinstance(n.targets[0], ast.Name):
            defs.setdefault(n.targets[0].id, []).append(n.value)
    for name, vals in defs.items():
        if len(vals) != 1:
            continue
        v = vals[0]
        if isinstance(v, ast.Call) and isinstance(v.func, ast.Name) and v.func.id in ('bytes', 'bytearray') and len(v.args) == 1:
            v = v.args[0]
        if isinstance(v, ast.Subscript) and isinstance(v.slice, ast.Slice) and v.slice.lower is not None and v.slice.upper is not None and v.slice.step is None:
            lo, up = ast.unparse(v.slice.lower), v.slice.upper
            if isinstance(up, ast.BinOp) and isinstance(up.op, ast.Add) and ast.unparse(up.left) == lo and isinstance(up.right, (ast.Name, ast.Constant)):
                out.append('len(%s) <= %s' % (name, ast.unparse(up.right)))
    return out


def _domains(fnode):
    """value ranges that follow from how a term is built: len(...) >= 0, x & k in 0..k, an enumerate() index or a
    range() variable with non-negative literal bounds >= 0"""
    dom = {}
    for n in ast.walk(fnode):
        if isinstance(n, ast.Call) and isinstance(n.func, ast.Name) and n.func.id == 'len' and len(n.args) == 1:
            dom[ast.unparse(n)] = (0, None)
        if isinstance(n, ast.BinOp) and isinstance(n.op, ast.BitAnd):
            for c_ in (n.left, n.right):
                if isinstance(c_, ast.Constant) and isinstance(c_.value, int) and c_.value >= 0:
                    dom[ast.unparse(n)] = (0, c_.value)
        if isinstance(n, (ast.For, ast.comprehension)):
            it = n.iter
            if isinstance(it, ast.Call) and isinstance(it.func, ast.Name):
                if it.func.id == 'enumerate' and isinstance(n.target, ast.Tuple) and n.target.elts and isinstance(n.target.elts[0], ast.Name) and len(it.args) == 1:
                    dom[n.target.elts[0].id] = (0, None)
                if it.func.id == 'range' and isinstance(n.target, ast.Name) and all(isinstance(a_, ast.Constant) and isinstance(a_.value, int) and a_.value >= 0 for a_ in it.args[:2]) \
                        and (len(it.args) < 3 or (isinstance(it.args[2], ast.Constant) and it.args[2].value > 0)):
                    dom[n.target.id] = (0, None)
    return dom


def _counterpart_in_repo(repo, fi, raw_fn, raw_stmt):
    """the statement of the analysed tree (with parent links, as escape.implied_at needs) at the position of a statement
    of the raw function; None when the pre-passes changed the shape"""
    if raw_fn is fi.node:
        return raw_stmt
    path = _path_to(raw_fn, raw_stmt)
    if path is None:
        return None
    cur = fi.node
    for f, i in path:
        v = getattr(cur, f, None)
        if i is None:
            cur = v
        else:
            lst = v
            if f in ('body', 'orelse', 'finalbody') and lst and isinstance(lst[0], ast.stmt):
                lst = _strip_doc(lst)
                lst = [s_ for s_ in lst if not isinstance(s_, ast.Pass)] if len(lst) > 1 else lst
            if not isinstance(lst, list) or i >= len(lst):
                return None
            cur = lst[i]
        if cur is None:
            return None
    return cur if type(cur) is type(raw_stmt) else None


_raw_cache = {}


def _raw_function(repo, fi):
    """the function definition as it stands in the file (parsed again, untouched by the pre-passes)"""
    path = fi.module.path
    if path not in _raw_cache:
        try:
            with open(path, encoding='utf8') as fh:
                tree = ast.parse(fh.read())
        except (OSError, SyntaxError):
            tree = None
        idx = {}
        if tree is not None:
            def walk(n, pre):
                for c in ast.iter_child_nodes(n):
                    if isinstance(c, (ast.FunctionDef, ast.AsyncFunctionDef)):
                        idx.setdefault(pre + c.name, c)
                        walk(c, pre + c.name + '.<locals>.')
                    elif isinstance(c, ast.ClassDef):
                        walk(c, pre + c.name + '.')
                    else:
                        walk(c, pre)
            walk(tree, fi.module.name + '.')
        _raw_cache[path] = idx
    return _raw_cache[path].get(fi.qualname)


def _show(x):
    if isinstance(x, ast.Constant):
        return repr(x.value)[:30]
    if isinstance(x, ast.expr):
        try:
            return ast.unparse(x)[:30]
        except Exception:
            pass
    if isinstance(x, ast.AST):
        return type(x).__name__
    return 'nothing' if x is None else str(x)[:30]


def _counterpart(old_root, new_root, new_node):
    """the node of the confirmed tree at the same position as `new_node` in the current one (the shapes are equal)"""
    if new_node is None:
        return None
    path = _path_to(new_root, new_node)
    if path is None:
        return None
    cur = old_root
    for f, i in path:
        v = getattr(cur, f, None)
        if i is None:
            cur = v
        else:
            lst = v
            if f in ('body', 'orelse', 'finalbody') and lst and isinstance(lst[0], ast.stmt):
                lst = _strip_doc(lst)
                lst = [s for s in lst if not isinstance(s, ast.Pass)] if len(lst) > 1 else lst
            if not isinstance(lst, list) or i >= len(lst):
                return None
            cur = lst[i]
        if cur is None:
            return None
    return cur


def _path_to(root, target):
    def go(n, path):
        if n is target:
            return path
        for f, v in ast.iter_fields(n):
            if isinstance(v, list):
                lst = v
                if f in ('body', 'orelse', 'finalbody') and lst and isinstance(lst[0], ast.stmt):
                    lst = _strip_doc(lst)
                    lst = [s for s in lst if not isinstance(s, ast.Pass)] if len(lst) > 1 else lst
                for i, x in enumerate(lst):
                    if isinstance(x, ast.AST):
                        p = go(x, path + [(f, i)])
                        if p is not None:
                            return p
            elif isinstance(v, ast.AST):
                p = go(v, path + [(f, None)])
                if p is not None:
                    return p
        return None
    return go(root, [])
