#!/usr/bin/env python3
"""Development helper: a mutation campaign against the CHECKER (not against the library's tests).

For every classic one-token mutant of the files the properties are anchored in (comparison and arithmetic operators,
and/or, dropped `not`, integer constants +-1, True/False, a simple statement replaced by `pass`) this tool
  1. runs the library's own 149 tests on a scratch copy; mutants the tests kill are of no interest (the brief asks for
     changes that "still compile and pass the existing tests");
  2. runs the checks of every property that consults the mutated file on the survivors;
  3. records the verdicts.  Survivors on which every check is silent are either equivalent mutants or defects the checks
     miss: they are the triage list (tools_mutate.py report).

Scratch copies live under $TMPDIR and are removed at the end.  Nothing here is registered in MANIFEST.json.

usage: tools_mutate.py run [--files f1,f2] [--out FILE] [--jobs N] [--limit N]
       tools_mutate.py report FILE
       tools_mutate.py recheck FILE [OUT]      the checks again on the silent survivors
"""
import ast, json, os, shutil, subprocess, sys, tempfile, time
from concurrent.futures import ThreadPoolExecutor
import threading

VERIF = os.path.dirname(os.path.abspath(__file__))
sys.path.insert(0, VERIF)
REPO = '/repo'
PY = '/venv/bin/python'

CMP = {ast.Lt: [ast.LtE, ast.Gt], ast.LtE: [ast.Lt], ast.Gt: [ast.GtE, ast.Lt], ast.GtE: [ast.Gt], ast.Eq: [ast.NotEq], ast.NotEq: [ast.Eq],
       ast.In: [ast.NotIn], ast.NotIn: [ast.In], ast.Is: [ast.IsNot], ast.IsNot: [ast.Is]}
BIN = {ast.Add: [ast.Sub], ast.Sub: [ast.Add], ast.Mult: [ast.FloorDiv], ast.FloorDiv: [ast.Mult], ast.Mod: [ast.FloorDiv], ast.LShift: [ast.RShift],
       ast.RShift: [ast.LShift], ast.BitAnd: [ast.BitOr], ast.BitOr: [ast.BitAnd], ast.BitXor: [ast.BitAnd], ast.Div: [ast.Mult]}


def files_to_props():
    from pblint import hazards
    inv = {}
    for i in range(1, 21):
        p = 'C%02d' % i
        for f in hazards.files_of(p):
            inv.setdefault(f, []).append(p)
    return inv


def clone(n):
    return ast.parse(ast.unparse(n), mode='eval').body


def expr_mutants(e):
    """(description, replacement expression) for one expression node (not descending)"""
    out = []
    if isinstance(e, ast.Compare):
        for k, op in enumerate(e.ops):
            for alt in CMP.get(type(op), []):
                m = clone(e)
                m.ops[k] = alt()
                out.append(('cmp %s->%s' % (type(op).__name__, alt.__name__), m))
    elif isinstance(e, ast.BinOp):
        if isinstance(e.op, ast.Mod) and isinstance(e.left, ast.Constant) and isinstance(e.left.value, (str, bytes)):
            return out
        for alt in BIN.get(type(e.op), []):
            m = clone(e)
            m.op = alt()
            out.append(('bin %s->%s' % (type(e.op).__name__, alt.__name__), m))
    elif isinstance(e, ast.BoolOp):
        m = clone(e)
        m.op = ast.Or() if isinstance(e.op, ast.And) else ast.And()
        out.append(('bool %s->%s' % (type(e.op).__name__, type(m.op).__name__), m))
    elif isinstance(e, ast.UnaryOp) and isinstance(e.op, ast.Not):
        out.append(('drop not', clone(e.operand)))
    elif isinstance(e, ast.Constant):
        v = e.value
        if isinstance(v, bool):
            out.append(('const %r->%r' % (v, not v), ast.Constant(value=not v)))
        elif isinstance(v, int):
            for w in ({v + 1, v - 1} if v not in (0,) else {1}):
                if w >= 0 or v <= 0:
                    out.append(('const %r->%r' % (v, w), ast.Constant(value=w)))
    return out


def spans_of(src, node):
    lines = src.splitlines(keepends=True)
    off = [0]
    for l in lines:
        off.append(off[-1] + len(l.encode('utf8')))
    def pos(ln, col):
        # col offsets are in utf8 bytes
        return off[ln - 1] + col
    return pos(node.lineno, node.col_offset), pos(node.end_lineno, node.end_col_offset)


def mutants_of_file(rel):
    path = os.path.join(REPO, rel)
    src = open(path, encoding='utf8').read()
    bsrc = src.encode('utf8')
    tree = ast.parse(src)
    for n in ast.walk(tree):
        for c in ast.iter_child_nodes(n):
            c._p = n
    out = []
    funcs = [n for n in ast.walk(tree) if isinstance(n, (ast.FunctionDef, ast.AsyncFunctionDef))]
    seen = set()
    for fn in funcs:
        qual = fn.name
        p = getattr(fn, '_p', None)
        while p is not None:
            if isinstance(p, (ast.ClassDef, ast.FunctionDef)):
                qual = p.name + '.' + qual
            p = getattr(p, '_p', None)
        for n in ast.walk(fn):
            if id(n) in seen:
                continue
            if isinstance(n, (ast.FunctionDef, ast.AsyncFunctionDef)) and n is not fn:
                continue
            if isinstance(n, ast.expr) and hasattr(n, 'end_col_offset'):
                par = getattr(n, '_p', None)
                # skip docstrings, decorators, default values of messages
                if isinstance(n, ast.Constant) and isinstance(par, ast.Expr):
                    continue
                if isinstance(n, ast.Constant) and isinstance(par, ast.BinOp) and isinstance(par.op, ast.Mod) and isinstance(par.left, ast.Constant) and isinstance(par.left.value, (str, bytes)):
                    continue
                # inside raise X(...) message arguments: skip constants
                q = par
                in_raise = False
                while q is not None and not isinstance(q, ast.stmt):
                    q = getattr(q, '_p', None)
                if isinstance(q, ast.Raise) and isinstance(n, (ast.Constant, ast.BinOp)):
                    continue
                for desc, m in expr_mutants(n):
                    seen.add(id(n))
                    a, b = spans_of(src, n)
                    text = ast.unparse(m)
                    if isinstance(m, (ast.BoolOp, ast.Compare, ast.BinOp, ast.UnaryOp)) and not isinstance(par, (ast.stmt,)):
                        text = '(' + text + ')'
                    new = bsrc[:a] + text.encode('utf8') + bsrc[b:]
                    out.append(dict(file=rel, func=qual, line=n.lineno, op=desc, before=bsrc[a:b].decode('utf8')[:80], after=text[:80], new=new))
            elif isinstance(n, ast.stmt) and not isinstance(n, (ast.FunctionDef, ast.AsyncFunctionDef, ast.ClassDef)):
                simple = isinstance(n, (ast.Assign, ast.AugAssign, ast.Raise, ast.Return, ast.Break, ast.Continue)) or (isinstance(n, ast.Expr) and isinstance(n.value, ast.Call))
                if simple and n.lineno == n.end_lineno or (simple and isinstance(n, (ast.Expr, ast.Assign, ast.AugAssign, ast.Raise))):
                    a, b = spans_of(src, n)
                    new = bsrc[:a] + b'pass' + bsrc[b:]
                    out.append(dict(file=rel, func=qual, line=n.lineno, op='stmt->pass', before=bsrc[a:b].decode('utf8')[:80], after='pass', new=new))
    if os.environ.get('MUTATE_SECOND_SET'):
        out = second_set(rel, src, bsrc, funcs)
    if os.environ.get('MUTATE_TOP'):
        # third set: integer constants of module-level and class-level assignments (+1 / -1), True/False flipped
        out = []
        def top(n, qual):
            for c in ast.iter_child_nodes(n):
                if isinstance(c, ast.ClassDef):
                    top(c, (qual + '.' if qual else '') + c.name)
                elif isinstance(c, ast.Assign):
                    for x in ast.walk(c.value):
                        if isinstance(x, ast.Constant) and hasattr(x, 'end_col_offset'):
                            for desc, m in expr_mutants(x):
                                a, b = spans_of(src, x)
                                new = bsrc[:a] + ast.unparse(m).encode('utf8') + bsrc[b:]
                                out.append(dict(file=rel, func=(qual or '<module>') + ':' + ast.unparse(c.targets[0])[:30], line=x.lineno, op=desc, before=ast.unparse(c)[:80], after=ast.unparse(m), new=new))
        top(tree, '')
    # drop mutants that do not parse
    good = []
    for m in out:
        try:
            ast.parse(m['new'])
            good.append(m)
        except SyntaxError:
            pass
    return good


SWAPS = {'append': 'insert0', 'lstrip': 'rstrip', 'rstrip': 'lstrip', 'min': 'max', 'max': 'min', 'any': 'all', 'all': 'any', 'startswith': 'endswith', 'endswith': 'startswith',
         'little': 'big', 'big': 'little'}


def second_set(rel, src, bsrc, funcs):
    """operators of the second campaign: neighbouring statements swapped, break <-> continue, `x += e` -> `x = e`, an
    upper slice bound dropped, min/max any/all lstrip/rstrip startswith/endswith 'little'/'big' exchanged, the first two
    positional arguments of a call exchanged, a local name replaced by another local of the function"""
    out = []

    def qual_of(fn):
        q = fn.name
        p = getattr(fn, '_p', None)
        while p is not None:
            if isinstance(p, (ast.ClassDef, ast.FunctionDef)):
                q = p.name + '.' + q
            p = getattr(p, '_p', None)
        return q

    def rep(node, text):
        a, b = spans_of(src, node)
        return bsrc[:a] + text.encode('utf8') + bsrc[b:]

    def add(fn, node, op, new, after):
        a, b = spans_of(src, node)
        out.append(dict(file=rel, func=qual_of(fn), line=node.lineno, op=op, before=bsrc[a:b].decode('utf8')[:80], after=after[:80], new=new))
    for fn in funcs:
        own = [n for n in ast.walk(fn)]
        locals_ = sorted({n.id for n in own if isinstance(n, ast.Name) and isinstance(n.ctx, ast.Store)} | {a.arg for a in fn.args.args if a.arg not in ('self', 'cls')})
        for n in own:
            # neighbouring simple statements swapped
            for f in ('body', 'orelse'):
                blk = getattr(n, f, None)
                if isinstance(blk, list) and blk and isinstance(blk[0], ast.stmt):
                    for i in range(len(blk) - 1):
                        s1, s2 = blk[i], blk[i + 1]
                        simple = lambda s: isinstance(s, (ast.Assign, ast.AugAssign)) or (isinstance(s, ast.Expr) and isinstance(s.value, ast.Call))
                        if simple(s1) and simple(s2) and s1.lineno == s1.end_lineno and s2.lineno == s2.end_lineno and s1.col_offset == s2.col_offset:
                            a1, b1 = spans_of(src, s1)
                            a2, b2 = spans_of(src, s2)
                            new = bsrc[:a1] + bsrc[a2:b2] + bsrc[b1:a2] + bsrc[a1:b1] + bsrc[b2:]
                            out.append(dict(file=rel, func=qual_of(fn), line=s1.lineno, op='swap stmts', before=bsrc[a1:b1].decode()[:40] + ' ; ' + bsrc[a2:b2].decode()[:40], after='(swapped)', new=new))
            if isinstance(n, ast.Break):
                add(fn, n, 'break->continue', rep(n, 'continue'), 'continue')
            if isinstance(n, ast.Continue):
                add(fn, n, 'continue->break', rep(n, 'break'), 'break')
            if isinstance(n, ast.AugAssign) and n.lineno == n.end_lineno:
                add(fn, n, 'aug->assign', rep(n, '%s = %s' % (ast.unparse(n.target), ast.unparse(n.value))), '=')
            if isinstance(n, ast.Subscript) and isinstance(n.slice, ast.Slice) and n.slice.upper is not None and n.slice.lower is not None:
                m = ast.parse(ast.unparse(n), mode='eval').body
                m.slice.upper = None
                add(fn, n, 'slice upper dropped', rep(n, ast.unparse(m)), ast.unparse(m))
            if isinstance(n, ast.Call):
                f = n.func
                nm = f.attr if isinstance(f, ast.Attribute) else (f.id if isinstance(f, ast.Name) else None)
                if nm in SWAPS and SWAPS[nm] != 'insert0':
                    m = ast.parse(ast.unparse(n), mode='eval').body
                    if isinstance(m.func, ast.Attribute):
                        m.func.attr = SWAPS[nm]
                    else:
                        m.func.id = SWAPS[nm]
                    add(fn, n, 'call %s->%s' % (nm, SWAPS[nm]), rep(n, ast.unparse(m)), ast.unparse(m))
                if len(n.args) >= 2 and not n.keywords and all(isinstance(x, (ast.Name, ast.Attribute, ast.Constant)) for x in n.args[:2]) and ast.unparse(n.args[0]) != ast.unparse(n.args[1]) \
                        and not any(isinstance(x, ast.Constant) and isinstance(x.value, (str, bytes)) for x in n.args[:2]):
                    m = ast.parse(ast.unparse(n), mode='eval').body
                    m.args[0], m.args[1] = m.args[1], m.args[0]
                    add(fn, n, 'args swapped', rep(n, ast.unparse(m)), ast.unparse(m))
            if isinstance(n, ast.Constant) and n.value in ('little', 'big') and hasattr(n, 'end_col_offset'):
                add(fn, n, 'byteorder', rep(n, repr(SWAPS[n.value])), SWAPS[n.value])
            if isinstance(n, ast.Name) and isinstance(n.ctx, ast.Load) and n.id in locals_ and len(locals_) > 1:
                k = locals_.index(n.id)
                other = locals_[(k + 1) % len(locals_)]
                add(fn, n, 'name %s->%s' % (n.id, other), rep(n, other), other)
    return out


_local = threading.local()
_dirs = []
_lock = threading.Lock()


def workdir(base):
    d = getattr(_local, 'd', None)
    if d is None:
        with _lock:
            d = os.path.join(base, 'w%d' % len(_dirs))
            _dirs.append(d)
        shutil.copytree(os.path.join(REPO, 'bitcoin'), os.path.join(d, 'bitcoin'), ignore=shutil.ignore_patterns('__pycache__'))
        _local.d = d
    return d


def run_one(args):
    m, base, props = args
    d = workdir(base)
    target = os.path.join(d, m['file'])
    orig = open(os.path.join(REPO, m['file']), 'rb').read()
    res = dict((k, v) for k, v in m.items() if k != 'new')
    try:
        with open(target, 'wb') as fh:
            fh.write(m['new'])
        env = dict(os.environ, PYTHONDONTWRITEBYTECODE='1')
        try:
            p = subprocess.run([PY, '-m', 'pytest', '-x', '-q', '-p', 'no:cacheprovider', '--timeout=60', 'bitcoin/tests'], cwd=d, stdout=subprocess.PIPE, stderr=subprocess.STDOUT, timeout=240, env=env)
            res['tests'] = 'pass' if p.returncode == 0 else 'fail'
        except subprocess.TimeoutExpired:
            res['tests'] = 'timeout'
        if res['tests'] != 'pass':
            return res
        verdicts = {}
        for pid in props:
            try:
                p = subprocess.run([os.path.join(VERIF, 'check'), pid, '--no-evidence', '--root', d], cwd=VERIF, stdout=subprocess.PIPE, stderr=subprocess.STDOUT, timeout=300)
                verdicts[pid] = p.returncode
                if p.returncode == 1:
                    v = [l.strip() for l in p.stdout.decode('utf8', 'replace').splitlines() if l.startswith('  rule=')]
                    res.setdefault('hits', []).append(v[0][:160] if v else pid)
            except subprocess.TimeoutExpired:
                verdicts[pid] = 'timeout'
        res['verdicts'] = verdicts
        return res
    finally:
        with open(target, 'wb') as fh:
            fh.write(orig)


def check_only(args):
    m, base, props = args
    d = workdir(base)
    target = os.path.join(d, m['file'])
    orig = open(os.path.join(REPO, m['file']), 'rb').read()
    res = dict((k, v) for k, v in m.items() if k != 'new')
    res['tests'] = 'pass'
    try:
        with open(target, 'wb') as fh:
            fh.write(m['new'])
        verdicts = {}
        for pid in props:
            p = subprocess.run([os.path.join(VERIF, 'check'), pid, '--no-evidence', '--root', d], cwd=VERIF, stdout=subprocess.PIPE, stderr=subprocess.STDOUT, timeout=300)
            verdicts[pid] = p.returncode
            if p.returncode == 1:
                v = [l.strip() for l in p.stdout.decode('utf8', 'replace').splitlines() if l.startswith('  rule=')]
                res.setdefault('hits', []).append(v[0][:160] if v else pid)
        res['verdicts'] = verdicts
        return res
    finally:
        with open(target, 'wb') as fh:
            fh.write(orig)


def recheck(infile, outfile):
    """run the checks again on the survivors that were silent (after the checks were strengthened)"""
    rows = [json.loads(l) for l in open(infile)]
    inv = files_to_props()
    pool = {}
    for f in sorted({r['file'] for r in rows}):
        for m in mutants_of_file(f):
            pool.setdefault((m['file'], m['func'], m['line'], m['op'], m['before'], m['after']), []).append(m)
    todo = []
    keep = []
    for r in rows:
        k = (r['file'], r['func'], r['line'], r['op'], r['before'], r['after'])
        m = pool[k].pop(0) if pool.get(k) else None
        if r.get('tests') == 'pass' and all(v == 0 for v in r['verdicts'].values()) and m is not None:
            todo.append(m)
        else:
            keep.append(r)
    print('re-checking %d silent survivors' % len(todo))
    base = tempfile.mkdtemp(prefix='pblint-mutate-')
    try:
        with ThreadPoolExecutor(16) as ex:
            res = list(ex.map(check_only, [(m, base, inv.get(m['file'], [])) for m in todo]))
    finally:
        shutil.rmtree(base, ignore_errors=True)
    with open(outfile, 'w') as fh:
        for r in keep + res:
            fh.write(json.dumps(r) + '\n')
    print('written', outfile)
    return 0


def main():
    args = sys.argv[1:]
    if not args or args[0] not in ('run', 'report', 'count', 'recheck'):
        print(__doc__)
        return 2
    if args[0] == 'report':
        rows = [json.loads(l) for l in open(args[1])]
        surv = [r for r in rows if r.get('tests') == 'pass']
        caught = [r for r in surv if any(v == 1 for v in r['verdicts'].values())]
        und = [r for r in surv if r not in caught and any(v == 2 for v in r['verdicts'].values())]
        silent = [r for r in surv if all(v == 0 for v in r['verdicts'].values())]
        print('mutants %d, killed by the tests %d, survivors %d: caught %d, undecided %d, silent %d' % (len(rows), len(rows) - len(surv), len(surv), len(caught), len(und), len(silent)))
        by = {}
        for r in silent:
            by.setdefault((r['file'], r['func']), []).append(r)
        for (f, fn), rs in sorted(by.items()):
            print('%s %s' % (f, fn))
            for r in rs:
                print('    L%-4d %-22s %s  =>  %s' % (r['line'], r['op'], r['before'][:50].replace('\n', ' '), r['after'][:50].replace('\n', ' ')))
        return 0
    if args[0] == 'recheck':
        return recheck(args[1], args[2] if len(args) > 2 else args[1] + '.recheck')
    inv = files_to_props()
    files = sorted(inv)
    out = os.path.join(tempfile.gettempdir(), 'mutants.jsonl')
    jobs = 16
    limit = None
    i = 1
    while i < len(args):
        if args[i] == '--files':
            files = args[i + 1].split(',')
            i += 2
        elif args[i] == '--out':
            out = args[i + 1]
            i += 2
        elif args[i] == '--jobs':
            jobs = int(args[i + 1])
            i += 2
        elif args[i] == '--limit':
            limit = int(args[i + 1])
            i += 2
        else:
            i += 1
    allm = []
    for f in files:
        ms = mutants_of_file(f)
        print('%s: %d mutants' % (f, len(ms)))
        allm.extend(ms)
    if args[0] == 'count':
        print('total', len(allm))
        return 0
    if limit:
        allm = allm[:limit]
    base = tempfile.mkdtemp(prefix='pblint-mutate-')
    t0 = time.time()
    try:
        with ThreadPoolExecutor(jobs) as ex, open(out, 'w') as fh:
            for k, r in enumerate(ex.map(run_one, [(m, base, inv.get(m['file'], [])) for m in allm])):
                fh.write(json.dumps(r) + '\n')
                fh.flush()
                if k % 200 == 0:
                    print('%d/%d  %.0fs' % (k, len(allm), time.time() - t0), flush=True)
    finally:
        shutil.rmtree(base, ignore_errors=True)
    print('written', out)
    return 0


if __name__ == '__main__':
    sys.exit(main())
