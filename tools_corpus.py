#!/usr/bin/env python3
"""Development helper: run the property checks over both corpora (seeded changes, behaviour-preserving refactorings)
in parallel on scratch copies under $TMPDIR (removed afterwards).  The recorded results (RESULTS.json) come from
tools_seeded.py / tools_refactor.py, which apply each patch to /repo itself and undo it.

usage: tools_corpus.py [seeded|refactors|all] [name-prefix ...] [--keep DIR]
       tools_corpus.py cross [name-prefix ...]     every rewrite under the checks of the 19 other properties
"""
import json, os, shutil, subprocess, sys, tempfile
from concurrent.futures import ThreadPoolExecutor

VERIF = os.path.dirname(os.path.abspath(__file__))


def sh(cmd, cwd=None):
    p = subprocess.run(cmd, cwd=cwd, stdout=subprocess.PIPE, stderr=subprocess.STDOUT)
    return p.returncode, p.stdout.decode('utf8', 'replace')


def one(args):
    kind, name, base = args
    d = os.path.join(base, kind + '-' + name)
    os.makedirs(d)
    shutil.copytree('/repo/bitcoin', os.path.join(d, 'bitcoin'), ignore=shutil.ignore_patterns('__pycache__', 'tests'))
    rc, out = sh(['patch', '-p1', '-s', '-i', os.path.join(VERIF, kind, name, 'patch.diff')], cwd=d)
    if rc:
        return kind, name, 'no-apply', out[:200]
    pid = name.split('-')[0]
    rc, out = sh([os.path.join(VERIF, 'check'), pid, '--no-evidence', '--root', d], cwd=VERIF)
    v = [l.strip() for l in out.splitlines() if l.startswith('  rule=') or l.startswith('ANALYSIS-ERROR')]
    return kind, name, rc, ' | '.join(x[:260] for x in v[:3])


PROPS = ['C%02d' % i for i in range(1, 21)]


def one_cross(args):
    """a behaviour-preserving rewrite made for one property, run under every OTHER property's check"""
    kind, name, base = args
    d = os.path.join(base, 'x-' + name)
    os.makedirs(d)
    shutil.copytree('/repo/bitcoin', os.path.join(d, 'bitcoin'), ignore=shutil.ignore_patterns('__pycache__', 'tests'))
    rc, out = sh(['patch', '-p1', '-s', '-i', os.path.join(VERIF, kind, name, 'patch.diff')], cwd=d)
    if rc:
        return [(kind, name, 'no-apply', out[:200])]
    res = []
    own = name.split('-')[0]
    for pid in PROPS:
        if pid == own:
            continue
        rc, out = sh([os.path.join(VERIF, 'check'), pid, '--no-evidence', '--root', d], cwd=VERIF)
        v = [l.strip() for l in out.splitlines() if l.startswith('  rule=') or l.startswith('ANALYSIS-ERROR')]
        res.append((kind, '%s@%s' % (name, pid), rc, ' | '.join(x[:260] for x in v[:2])))
    shutil.rmtree(d, ignore_errors=True)
    return res


def cross(prefixes):
    base = tempfile.mkdtemp(prefix='pblint-cross-')
    jobs = [('refactors', n, base) for n in sorted(os.listdir(os.path.join(VERIF, 'refactors')))
            if os.path.isdir(os.path.join(VERIF, 'refactors', n)) and (not prefixes or any(n.startswith(p) for p in prefixes))]
    try:
        with ThreadPoolExecutor(16) as ex:
            res = [r for rr in ex.map(one_cross, jobs) for r in rr]
    finally:
        shutil.rmtree(base, ignore_errors=True)
    tally = {}
    for kind, name, rc, detail in res:
        verdict = {0: 'silent', 1: 'FALSE-ALARM', 2: 'undecided'}.get(rc, str(rc))
        tally[verdict] = tally.get(verdict, 0) + 1
        if rc != 0:
            print('cross %-16s %-12s %s' % (name, verdict, detail[:500]))
    for k in sorted(tally):
        print('cross %s: %d' % (k, tally[k]))
    return 1 if tally.get('FALSE-ALARM') else 0


def main():
    args = sys.argv[1:]
    if args and args[0] == 'cross':
        return cross(args[1:])
    keep = None
    if '--keep' in args:
        i = args.index('--keep')
        keep = args[i + 1]
        del args[i:i + 2]
    which = args[0] if args else 'all'
    prefixes = args[1:]
    jobs = []
    base = keep or tempfile.mkdtemp(prefix='pblint-corpus-')
    if keep:
        shutil.rmtree(keep, ignore_errors=True)
        os.makedirs(keep)
    for kind in ('seeded', 'refactors'):
        if which not in ('all', kind):
            continue
        for n in sorted(os.listdir(os.path.join(VERIF, kind))):
            if os.path.isdir(os.path.join(VERIF, kind, n)) and (not prefixes or any(n.startswith(p) for p in prefixes)):
                jobs.append((kind, n, base))
    try:
        with ThreadPoolExecutor(16) as ex:
            res = list(ex.map(one, jobs))
    finally:
        if not keep:
            shutil.rmtree(base, ignore_errors=True)
    bad = 0
    tally = {}
    for kind, name, rc, detail in res:
        if kind == 'seeded':
            verdict = {1: 'CAUGHT', 0: 'MISSED', 2: 'undecided'}.get(rc, str(rc))
            good = rc == 1
        else:
            verdict = {0: 'silent', 1: 'FALSE-ALARM', 2: 'undecided'}.get(rc, str(rc))
            good = rc == 0
        tally[(kind, verdict)] = tally.get((kind, verdict), 0) + 1
        if not good:
            bad += 1
            print('%-10s %-10s %-12s %s' % (kind, name, verdict, detail[:600]))
    for k in sorted(tally):
        print('%s %s: %d' % (k[0], k[1], tally[k]))
    return 1 if bad else 0


if __name__ == '__main__':
    sys.exit(main())
