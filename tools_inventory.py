#!/usr/bin/env python3
"""Regenerate pblint/inventory.json: the vocabulary of the confirmed tree (functions, module/class constants and
the local names of every function).  The desugaring pre-pass (pblint/desugar.py) uses it to tell the names the
rules were written against from names a later edit introduced (new private helpers, named constants, temporaries),
which are inlined / folded away before the rules run.  Run only on a tree whose rule instances were confirmed by hand.
"""
import ast
import json
import os
import subprocess
import sys

sys.path.insert(0, os.path.dirname(os.path.abspath(__file__)))
from pblint.model import Repo  # noqa: E402
from pblint.desugar import inventory_of_function  # noqa: E402
from pblint.hazards import effects_of  # noqa: E402


def main(root='/repo'):
    st = subprocess.run(['git', '-C', root, 'status', '--porcelain'], stdout=subprocess.PIPE).stdout.decode()
    if st.strip():
        print('refusing: %s has uncommitted changes' % root)
        return 1
    head = subprocess.run(['git', '-C', root, 'rev-parse', 'HEAD'], stdout=subprocess.PIPE).stdout.decode().strip()
    repo = Repo(root, desugar=False)
    inv = {'repo_head': head, 'modules': {}}
    for name, m in sorted(repo.modules.items()):
        consts = sorted(m.bindings.keys())
        classes = {}
        for cn, ci in sorted(m.classes.items()):
            classes[cn] = {'attrs': sorted(ci.attrs.keys()), 'methods': sorted(ci.methods.keys()), 'slots': list(ci.slots or [])}
        funcs = {}
        for q, fi in sorted(repo.functions.items()):
            if fi.module is not m:
                continue
            funcs[q] = inventory_of_function(fi.node)
            funcs[q]['stores'] = sorted({n.attr for n in ast.walk(fi.node) if isinstance(n, ast.Attribute) and isinstance(n.ctx, ast.Store)})
            funcs[q]['effects'] = effects_of(fi.node, set(m.bindings.keys()), m)
        inv['modules'][name] = {'names': consts, 'classes': classes, 'functions': funcs}
    out = os.path.join(os.path.dirname(os.path.abspath(__file__)), 'pblint', 'inventory.json')
    json.dump(inv, open(out, 'w'), indent=0)
    print('wrote %s: %d modules, %d functions' % (out, len(inv['modules']), sum(len(v['functions']) for v in inv['modules'].values())))
    return 0


if __name__ == '__main__':
    sys.exit(main(*sys.argv[1:]))
