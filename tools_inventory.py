#!/usr/bin/env python3
"""Regenerate pblint/inventory.json: the vocabulary of the confirmed tree (functions, module/class constants and
the local names of every function).  The desugaring pre-pass (pblint/desugar.py) uses it to tell the names the
rules were written against from names a later edit introduced (new private helpers, named constants, temporaries),
which are inlined / folded away before the rules run.  Run only on a tree whose rule instances were confirmed by hand.
"""
import ast
import json
import os
import subprocess
import sys

sys.path.insert(0, os.path.dirname(os.path.abspath(__file__)))
from pblint.model import Repo  # noqa: E402
from pblint.desugar import inventory_of_function  # noqa: E402
from pblint.hazards import effects_of  # noqa: E402


def anchored_functions(repo, root):
    """{property id: [qualified names]}: the functions that overlap the line ranges the property's anchors name
    (properties.jsonl, 'mechanism' -> 'where'), resolved once on the confirmed tree so that later edits cannot shift them"""
    import re
    here = os.path.dirname(os.path.abspath(__file__))
    out = {}
    for line in open(os.path.join(here, 'properties.jsonl')):
        p = json.loads(line)
        names = []
        for mech in p['anchors']['mechanism']:
            for part in re.split(r';\s*', mech['where']):
                mm = re.match(r'^(\S+?):(.*)$', part.strip())
                if not mm:
                    continue
                rel = mm.group(1)
                ranges = []
                for r_ in mm.group(2).split(','):
                    m2 = re.match(r'^\s*(\d+)(?:-(\d+))?', r_)
                    if m2:
                        ranges.append((int(m2.group(1)), int(m2.group(2) or m2.group(1))))
                for q, fi in repo.functions.items():
                    if fi.module.relpath == rel and any(not (fi.node.end_lineno < a or fi.node.lineno > b) for a, b in ranges) and q not in names:
                        names.append(q)
        out[p['id']] = sorted(names)
    return out


def main(root='/repo'):
    st = subprocess.run(['git', '-C', root, 'status', '--porcelain'], stdout=subprocess.PIPE).stdout.decode()
    if st.strip():
        print('refusing: %s has uncommitted changes' % root)
        return 1
    head = subprocess.run(['git', '-C', root, 'rev-parse', 'HEAD'], stdout=subprocess.PIPE).stdout.decode().strip()
    repo = Repo(root, desugar=False)
    inv = {'repo_head': head, 'modules': {}}
    for name, m in sorted(repo.modules.items()):
        consts = sorted(m.bindings.keys())
        classes = {}
        for cn, ci in sorted(m.classes.items()):
            classes[cn] = {'attrs': sorted(ci.attrs.keys()), 'methods': sorted(ci.methods.keys()), 'slots': list(ci.slots or [])}
        funcs = {}
        for q, fi in sorted(repo.functions.items()):
            if fi.module is not m:
                continue
            funcs[q] = inventory_of_function(fi.node)
            funcs[q]['stores'] = sorted({n.attr for n in ast.walk(fi.node) if isinstance(n, ast.Attribute) and isinstance(n.ctx, ast.Store)})
            funcs[q]['effects'] = effects_of(fi.node, set(m.bindings.keys()), m)
            funcs[q]['source'] = ast.unparse(fi.node)  # the confirmed function itself (DELTA compares statement by statement)
        inv['modules'][name] = {'names': consts, 'classes': classes, 'functions': funcs}
    inv['anchored'] = anchored_functions(repo, root)
    out = os.path.join(os.path.dirname(os.path.abspath(__file__)), 'pblint', 'inventory.json')
    json.dump(inv, open(out, 'w'), indent=0)
    print('wrote %s: %d modules, %d functions' % (out, len(inv['modules']), sum(len(v['functions']) for v in inv['modules'].values())))
    return 0


if __name__ == '__main__':
    sys.exit(main(*sys.argv[1:]))
