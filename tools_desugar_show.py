#!/usr/bin/env python3
"""Show what the desugaring pre-pass did on a tree: the log, and (with a function name) the rewritten function."""
import ast, sys, os
sys.path.insert(0, os.path.dirname(os.path.abspath(__file__)))
from pblint.model import Repo
root = sys.argv[1] if len(sys.argv) > 1 else '/repo'
repo = Repo(root)
for l in repo.desugar_log:
    print(l)
for q in sys.argv[2:]:
    fi = repo.functions.get(q)
    print('-----', q)
    print(ast.unparse(fi.node) if fi else 'not found')
