#!/usr/bin/env python3
"""Regenerate MANIFEST.json from the list of built property modules (pblint/props/cNN.py)."""
import json, os
HERE = os.path.dirname(os.path.abspath(__file__))
ids = ['C%02d' % i for i in range(1, 21)]
built = [i for i in ids if os.path.exists(os.path.join(HERE, 'pblint', 'props', i.lower() + '.py'))]
NA = json.load(open(os.path.join(HERE, 'not_applicable.json'))) if os.path.exists(os.path.join(HERE, 'not_applicable.json')) else {}
TECH = json.load(open(os.path.join(HERE, 'techniques.json')))
m = {
 "version": 1,
 "setup_cmd": "/venv/bin/python -m compileall -q /verif/pblint >/dev/null 2>&1 || python3 -m compileall -q /verif/pblint >/dev/null 2>&1 || true",
 "hooks": {"guard": "PETERTODD_PYTHON_BITCOINLIB_VERIF", "enable": "no hooks: the checks read /repo's source with ast and never import or run it",
           "baseline_off_cmd": "cd /repo && /venv/bin/python -m pytest -ra -q -p no:cacheprovider --timeout=900 --continue-on-collection-errors",
           "source_commits": [], "add_only": True},
 "engines": [{"name": "pblint", "path": "/verif/pblint", "serves_properties": [b for b in built if b not in NA],
              "kind_free_text": "repository-specific static analyser over Python ast: program model (imports, constant folding, C3 MRO, call resolution), wire-layout inference, finite-domain decision tables, must-dataflow, ownership/effect and exception-escape analyses, guard-rule normalisation"}],
 "checks": [], "not_applicable": [],
 "notes": "Static analysis only (DESIGN.md). exit 0 holds / exit 1 VIOLATION / exit 2 ANALYSIS-ERROR (undecidable idiom, vanished anchor, instance floor). thorough = quick + both-ways self-test of the rules on seeded single-edit variants of a scratch copy."
}
for i in ids:
    if i in built and i not in NA:
        t = TECH.get(i, {})
        m["checks"].append({
            "property_id": i,
            "quick_cmd": "./check %s --tier quick" % i,
            "thorough_cmd": "./check %s --tier thorough" % i,
            "evidence_file": "/verif/evidence/%s.json" % i,
            "replay_cmd_template": "./check %s --replay {path}" % i,
            "engine": "pblint",
            "level_claimed": {"category": "other",
                              "text": t.get('text', "static analysis of /repo's current source: every rule instance (call site, class, table row, guard, layout field) is decided for all inputs at once from the shape of the code; decides the shape-visible clauses listed in DESIGN.md section 5, not the runtime values"),
                              "design_ref": "DESIGN.md section 5, %s" % i},
            "level_note": t.get('note', "trusted: CPython ast, struct/bytes/BytesIO/hashlib semantics, the protocol tables in pblint/spec.py; clauses listed as 'not decided' in DESIGN.md are outside the claim"),
            "technique": t.get('technique', "custom ast-based static analysis"),
        })
    else:
        m["not_applicable"].append({"property_id": i, "reason": NA.get(i, "check under construction in this session: no rule set committed yet (see DESIGN.md section 5 for the planned static rules)")})
json.dump(m, open(os.path.join(HERE, 'MANIFEST.json'), 'w'), indent=1)
print('built:', [c['property_id'] for c in m['checks']])
