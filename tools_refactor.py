#!/usr/bin/env python3
"""Behaviour-preserving refactorings (from independent sub-agents): confirm them, then measure false alarms.

usage: tools_refactor.py confirm <src-dir> <PID> <name>   record equiv.py on a clean scratch worktree, apply the patch,
                                                          run the 149-test baseline, equiv.py --check must exit 0;
                                                          then store under /verif/refactors/<PID>-<name>/
       tools_refactor.py run [<PID>-<name> ...]           apply each stored patch to /repo, run ./check <PID>, undo, report
                                                          (exit 0 = silent, 1 = FALSE ALARM, 2 = undecided)
"""
import json
import os
import shutil
import subprocess
import sys
import tempfile

VERIF = os.path.dirname(os.path.abspath(__file__))
STORE = os.path.join(VERIF, 'refactors')
PY = '/venv/bin/python'


def sh(cmd, cwd=None, timeout=1800):
    p = subprocess.run(cmd, cwd=cwd, shell=isinstance(cmd, str), stdout=subprocess.PIPE, stderr=subprocess.STDOUT, timeout=timeout)
    return p.returncode, p.stdout.decode('utf8', 'replace')


def confirm(src, pid, name):
    wt = tempfile.mkdtemp(prefix='wt-refconfirm-')
    os.rmdir(wt)
    rc, out = sh(['git', '-C', '/repo', 'worktree', 'add', '-q', '--detach', wt, 'HEAD'])
    if rc:
        print(out)
        return False
    exp = tempfile.mktemp(prefix='expected-', suffix='.json')
    res = {}
    try:
        eq = os.path.join(src, 'equiv.py')
        patch = os.path.join(src, 'patch.diff')
        rc, out = sh([PY, eq, '--record', exp], cwd=wt)
        res['record_rc'] = rc
        rc2, out2 = sh(['git', 'apply', patch], cwd=wt)
        res['apply_rc'] = rc2
        if rc == 0 and rc2 == 0:
            rc3, out3 = sh([PY, '-m', 'pytest', '-q', '-p', 'no:cacheprovider', '--timeout=900'], cwd=wt)
            res['tests_rc'] = rc3
            res['tests_tail'] = out3.strip().splitlines()[-1] if out3.strip() else ''
            rc4, out4 = sh([PY, eq, '--check', exp], cwd=wt)
            res['check_rc'] = rc4
            res['check_tail'] = '\n'.join(out4.strip().splitlines()[-2:])
        ok = res.get('record_rc') == 0 and res.get('apply_rc') == 0 and res.get('tests_rc') == 0 and res.get('check_rc') == 0
        res['confirmed'] = ok
        print(pid, name, json.dumps(res)[:300])
        if ok:
            dst = os.path.join(STORE, '%s-%s' % (pid, name))
            os.makedirs(dst, exist_ok=True)
            shutil.copy(patch, os.path.join(dst, 'patch.diff'))
            shutil.copy(eq, os.path.join(dst, 'equiv.py'))
            meta = {}
            mp = os.path.join(src, 'meta.json')
            if os.path.exists(mp):
                try:
                    meta = json.load(open(mp))
                except Exception:
                    meta = {'raw': open(mp).read()}
            meta['property'] = pid
            meta['confirmed_by'] = ('scratch worktree of /repo HEAD: equiv.py --record on the clean tree; git apply ok; pytest %s; '
                                    'equiv.py --check exit 0 with the patch (%s)' % (res['tests_tail'], res.get('check_tail', '')[-120:]))
            meta['repo_head'] = sh(['git', '-C', '/repo', 'rev-parse', 'HEAD'])[1].strip()
            json.dump(meta, open(os.path.join(dst, 'meta.json'), 'w'), indent=1)
        return ok
    finally:
        sh(['git', '-C', '/repo', 'worktree', 'remove', '--force', wt])
        shutil.rmtree(wt, ignore_errors=True)
        if os.path.exists(exp):
            os.unlink(exp)


def run(names, all_props=False):
    if not names:
        names = sorted(n for n in os.listdir(STORE) if os.path.isdir(os.path.join(STORE, n)))
    rc, out = sh(['git', '-C', '/repo', 'status', '--porcelain'])
    if out.strip():
        print('refusing: /repo is not clean:\n' + out)
        return 2
    results = {}
    for n in names:
        d = os.path.join(STORE, n)
        pid = n.split('-')[0]
        rc, out = sh(['git', '-C', '/repo', 'apply', os.path.join(d, 'patch.diff')])
        if rc:
            print(n, 'PATCH DOES NOT APPLY', out[:200])
            results[n] = 'no-apply'
            continue
        try:
            props = [pid] if not all_props else ['C%02d' % i for i in range(1, 21)]
            line = []
            for p in props:
                rc, out = sh([os.path.join(VERIF, 'check'), p, '--no-evidence'], cwd=VERIF)
                v = [l for l in out.splitlines() if l.startswith('  rule=') or l.startswith('UNDECIDED') or l.startswith('ANALYSIS-ERROR')]
                line.append((p, rc, v[:3]))
            worst = max(x[1] for x in line)
            results[n] = {0: 'silent', 1: 'FALSE-ALARM', 2: 'undecided'}.get(worst, 'error')
            if any(x[1] == 1 for x in line):
                results[n] = 'FALSE-ALARM'
            print('%-14s %-12s %s' % (n, results[n], ' ;; '.join('%s exit %d %s' % (p, rc, ' | '.join(s.strip()[:230] for s in v)) for p, rc, v in line if rc)))
        finally:
            sh(['git', '-C', '/repo', 'checkout', '--', '.'])
            sh(['git', '-C', '/repo', 'clean', '-fdq', 'bitcoin'])
    rp = os.path.join(STORE, 'RESULTS.json')
    try:
        merged = json.load(open(rp))
    except Exception:
        merged = {}
    merged.update(results)
    merged = {k: v for k, v in merged.items() if os.path.isdir(os.path.join(STORE, k))}
    os.makedirs(STORE, exist_ok=True)
    json.dump(merged, open(rp, 'w'), indent=1, sort_keys=True)
    return 0


if __name__ == '__main__':
    if sys.argv[1] == 'confirm':
        sys.exit(0 if confirm(sys.argv[2], sys.argv[3], sys.argv[4]) else 1)
    elif sys.argv[1] == 'run':
        args = sys.argv[2:]
        allp = '--all' in args
        args = [a for a in args if a != '--all']
        sys.exit(run(args, allp))
