#!/usr/bin/env python
"""Concrete witnesses for the defects listed in DESIGN.md section 6 / known_findings.json.

Triage aid only (run with /venv/bin/python from any directory; imports the library found on sys.path / cwd).
It is NOT part of any check: the checks are static.  Prints DEFECT <id> when the defect is present, ok <id> otherwise.
"""
import io, struct, sys
import bitcoin
from bitcoin.core import *
from bitcoin.core.script import *
from bitcoin.core.scripteval import *
from bitcoin.core.serialize import *


def F1():
    tx = CTransaction([CTxIn(COutPoint(b'\x01' * 32, 0))], [CTxOut(1, CScript())], nLockTime=0x80000000)
    try:
        SignatureHash(CScript([OP_1]), tx, 0, SIGHASH_ALL, amount=1, sigversion=SIGVERSION_WITNESS_V0)
    except struct.error:
        return True
    return False


def F2():
    bad = False
    try:
        n = CScript([OP_2, OP_CHECKMULTISIG]).GetSigOpCount(True)
        bad |= n != 2
    except AttributeError:
        bad = True
    try:
        n = CScript(b'\xac\x4c').GetSigOpCount(False)
        bad |= n != 1
    except CScriptInvalidError:
        bad = True
    return bad


def F3():
    stack = []
    EvalScript(stack, CScript([5, 1, 3, OP_WITHIN]), None, 0)
    return stack != [b'']


def F4():
    try:
        VerifyScript(CScript([OP_1]), CScript([]), None, 0, flags=(SCRIPT_VERIFY_CLEANSTACK,))
    except AssertionError:
        return True
    except ValidationError:
        return False
    return False


def F5():
    from bitcoin.wallet import CBitcoinAddress, CBitcoinAddressError
    from bitcoin.segwit_addr import encode
    addr = encode('bc', 1, bytes(range(32)))
    try:
        CBitcoinAddress(addr)
    except CBitcoinAddressError:
        return False
    except AssertionError:
        return True
    return True


def F6():
    from bitcoin.messages import MsgSerializable, msg_ping
    good = msg_ping().to_bytes()
    hdr = bytearray(good[:24])
    hdr[16:20] = struct.pack('<I', 0x80000000)
    f = io.BytesIO(bytes(hdr) + good[24:] + b'X' * 20)
    try:
        MsgSerializable.stream_deserialize(f)
    except SerializationError:
        return False
    except ValueError:
        # bad checksum after swallowing the rest of the stream
        return f.tell() > 24 + 8
    return True


def F7():
    from bitcoin.bloom import CBloomFilter
    f = CBloomFilter.deserialize(b'\x00' + struct.pack('<IIB', 5, 0, 0))
    try:
        return f.contains(b'abc') is not True
    except ZeroDivisionError:
        return True


def F8():
    m = CMutableTransaction([CMutableTxIn()], [], witness=CTxWitness([CTxInWitness(CScriptWitness([b'a']))]))
    snap = CTransaction.from_tx(m)
    before = snap.serialize()
    try:
        m.wit.vtxinwit[0] = CTxInWitness(CScriptWitness([b'b']))
    except TypeError:
        return False
    return snap.serialize() != before


def F9():
    # coinbase with a 1-byte script must be rejected by CheckBlock (rule applied to the coinbase itself)
    cb = CTransaction([CTxIn(COutPoint(), CScript(b'\x00'))], [CTxOut(0, CScript())])
    blk = CBlock(vtx=[cb], nBits=0x207fffff)
    try:
        CheckBlock(blk, fCheckPoW=False, cur_time=2**40)
    except ValidationError:
        return False
    return True


def F10():
    try:
        CheckProofOfWork(b'\x00' * 32, 0x1c800000)
    except CheckProofOfWorkError:
        return False
    return True


def F12():
    s = CScript(b'\x01\x01' * 1001 + bytes([OP_2DROP]) * 1)
    try:
        EvalScript([], s, None, 0)
    except EvalScriptError:
        return False
    return True


def F11():
    tx = CTransaction([CTxIn(COutPoint(b'\x01' * 32, 0))], [CTxOut(1, CScript())])
    try:
        VerifyScript(CScript([b'\x30\x06\x02\x01\x01\x02\x01\x01\x01']), CScript([b'\x02' + b'\x01' * 32, OP_CHECKSIG]), tx, -5)
    except IndexError:
        return True
    except ValidationError:
        return False
    return False


def F14():
    tx = CTransaction([CTxIn(COutPoint(b'\x01' * 32, 0))], [CTxOut(1, CScript())])
    try:
        SignatureHash(CScript(b'\x00\x02\xaa\xbb'), tx, 0, SIGHASH_ALL)
    except AssertionError:
        return True
    return False


if __name__ == '__main__':
    for name in ['F1', 'F2', 'F3', 'F4', 'F5', 'F6', 'F7', 'F8', 'F9', 'F10', 'F11', 'F12', 'F14']:
        try:
            r = globals()[name]()
            print('DEFECT' if r else 'ok', name)
        except Exception as e:
            print('ERROR', name, type(e).__name__, e)
